package main

import (
	"bufio"
	"encoding/json"
	"flag"
	"fmt"
	"go/ast"
	"go/parser"
	"go/token"
	"math/rand"
	"os"
	"os/exec"
	"path/filepath"
	"regexp"
	"sort"
	"strconv"
	"strings"
	"sync"

	"github.com/goghcrow/go-co/rewriter"

	"verif/harness/mg"
	"verif/harness/scratchfs"
)

func init() {
	commands["compile-one"] = compileOne
	commands["gogen-one"] = gogenOne
	commands["cgen"] = cgen
	commands["crun"] = crun
}

// gogen-one: go:generate mode with a file suffix and a build tag of the caller's choosing
func gogenOne(args []string) {
	fs := flag.NewFlagSet("gogen-one", flag.ExitOnError)
	dir := fs.String("dir", "", "")
	suffix := fs.String("suffix", "co", "")
	tag := fs.String("tag", "co", "")
	fs.Parse(args)
	defer func() {
		if r := recover(); r != nil {
			fmt.Printf("PANIC %s\n", strings.ReplaceAll(fmt.Sprint(r), "\n", " "))
			os.Exit(3)
		}
	}()
	rewriter.GoGen(*dir, rewriter.WithFileSuffix(*suffix), rewriter.WithBuildTag(*tag))
	fmt.Println("OK")
}

// compile-one: run the real compiler on one source directory; a compiler panic becomes exit status 3
// with the panic message on stdout (first line).
func compileOne(args []string) {
	fs := flag.NewFlagSet("compile-one", flag.ExitOnError)
	src := fs.String("src", "", "")
	dst := fs.String("dst", "", "")
	fs.Parse(args)
	defer func() {
		if r := recover(); r != nil {
			msg := strings.ReplaceAll(fmt.Sprint(r), "\n", " ")
			fmt.Printf("PANIC %s\n", msg)
			os.Exit(3)
		}
	}()
	rewriter.Compile(*src, *dst)
	fmt.Println("OK")
}

type progLine struct {
	Name string
	Body []*mg.Stmt
	Sexp string
}

// cgen: generate generator bodies. Writes progs.txt (name TAB sexp) and req.txt ((k4 <body>) per line).
func cgen(args []string) {
	fs := flag.NewFlagSet("cgen", flag.ExitOnError)
	out := fs.String("out", "", "")
	tier := fs.String("tier", "quick", "")
	seed := fs.Int64("seed", 1, "")
	corpus := fs.String("corpus", "", "file of program s-expressions to include first")
	only := fs.Bool("only-corpus", false, "emit the corpus programs only")
	fs.Parse(args)

	var bodies [][]*mg.Stmt
	nRandom, depth, width, nDeep := 700, 1, 2, 300
	if *tier == "thorough" {
		nRandom, nDeep = 6000, 3000
	}
	small := mg.Small(depth, width)
	{
		r := rand.New(rand.NewSource(*seed + 5))
		if *tier != "thorough" {
			// quick: a seeded sample of the exhaustive depth-1 set
			r.Shuffle(len(small), func(i, j int) { small[i], small[j] = small[j], small[i] })
			if len(small) > 300 {
				small = small[:300]
			}
		}
		// random members of the same reduced grammar at nesting depth 2-3
		for i := 0; i < nDeep; i++ {
			small = append(small, mg.SmallRandom(r, 2+r.Intn(2), 2))
		}
	}
	bodies = append(bodies, small...)
	nTerm := 250
	if *tier == "thorough" {
		nTerm = 2500
	}
	{
		r := rand.New(rand.NewSource(*seed + 17))
		for i := 0; i < nTerm; i++ {
			bodies = append(bodies, mg.TermRandom(r, 1+r.Intn(3)))
		}
	}
	nScope := 250
	if *tier == "thorough" {
		nScope = 2500
	}
	{
		r := rand.New(rand.NewSource(*seed + 29))
		for i := 0; i < nScope; i++ {
			bodies = append(bodies, mg.ScopeRandom(r, 1+r.Intn(3)))
		}
	}
	r := rand.New(rand.NewSource(*seed))
	for i := 0; i < nRandom; i++ {
		o := mg.GenOpts{MaxDepth: 1 + r.Intn(3), MaxLen: 2 + r.Intn(3), Switch: r.Intn(3) != 0, Panics: r.Intn(4) == 0}
		bodies = append(bodies, mg.RandomProg(r, o))
	}
	pf, _ := os.Create(filepath.Join(*out, "progs.txt"))
	rf, _ := os.Create(filepath.Join(*out, "req.txt"))
	pw, rw := bufio.NewWriter(pf), bufio.NewWriter(rf)
	n := 0
	emit := func(sx string) {
		fmt.Fprintf(pw, "G%d\t%s\n", n, sx)
		fmt.Fprintf(rw, "(k4 %s)\n", sx)
		n++
	}
	if *corpus != "" {
		if data, err := os.ReadFile(*corpus); err == nil {
			for _, line := range strings.Split(string(data), "\n") {
				line = strings.TrimSpace(line)
				if line != "" && !strings.HasPrefix(line, "#") {
					emit(line)
				}
			}
		}
	}
	nCorpus := n
	if *only {
		bodies = nil
	}
	for _, b := range bodies {
		emit((&mg.Prog{Body: b}).Sexp().String())
	}
	pw.Flush()
	rw.Flush()
	pf.Close()
	rf.Close()
	st := map[string]any{"programs": n, "corpus": nCorpus, "small_exhaustive": len(small), "small_depth": depth,
		"small_width": width, "random": nRandom, "termination_family": nTerm, "scope_family": nScope}
	b, _ := json.MarshalIndent(st, "", " ")
	os.WriteFile(filepath.Join(*out, "gen_stats.json"), b, 0o644)
}

type runResult struct {
	Name   string `json:"name"`
	Status string `json:"status"` // ok | panic | missing
	Msg    string `json:"msg,omitempty"`
	Tmp    string `json:"tmp,omitempty"`   // body s-expression of the intermediate output
	Final  string `json:"final,omitempty"` // body s-expression of the optimised output
	Batch  string `json:"batch"`
	Build  string `json:"build,omitempty"` // "" ok | error text (generated package does not build)
	RunC   string `json:"run_c,omitempty"` // trace of the compiled generator
	RunR   string `json:"run_r,omitempty"` // trace of the source on the reference coroutine
	RunT   string `json:"run_t,omitempty"` // trace of the unoptimised intermediate output
	ScopeS string `json:"scope_s"`         // K9: go/types scope report of the source function
	ScopeT string `json:"scope_t"`         // ... of the intermediate output
	ScopeF string `json:"scope_f"`         // ... of the optimised output
}

// crun: compile the programs with the real compiler (batched, panics isolated by bisection).
//
//	-dir   work directory holding progs.txt and pred.txt (Lean's answer lines for req.txt)
//
// writes results.jsonl, and leaves the scratch module in dir/mod for the later build-and-run stage.
func crun(args []string) {
	fs := flag.NewFlagSet("crun", flag.ExitOnError)
	dir := fs.String("dir", "", "")
	repo := fs.String("repo", "/repo", "")
	batchSize := fs.Int("batch", 120, "")
	fuel := fs.Int("fuel", 300, "atom evaluations allowed per run")
	maxPull := fs.Int("pulls", 25, "values pulled per run")
	noRun := fs.Bool("norun", false, "skip build-and-run of the generated packages")
	maxIso := fs.Int("max-isolated", 12, "programs predicted to be rejected that are compiled alone")
	par := fs.Int("par", 12, "")
	fs.Parse(args)

	progs := readProgs(filepath.Join(*dir, "progs.txt"))
	preds := readLines(filepath.Join(*dir, "pred.txt"))
	mod := filepath.Join(*dir, "mod")
	os.RemoveAll(mod)
	os.MkdirAll(filepath.Join(mod, "tmp"), 0o755)
	if err := scratchfs.Materialise(mod, *repo); err != nil {
		fmt.Fprintln(os.Stderr, err)
		os.Exit(2)
	}

	var okProgs, unbProgs, errProgs []progLine
	for i, p := range progs {
		switch {
		case i < len(preds) && strings.HasPrefix(preds[i], "ok ") && strings.Contains(preds[i], "buildable=true"):
			okProgs = append(okProgs, p)
		case i < len(preds) && strings.HasPrefix(preds[i], "ok "):
			unbProgs = append(unbProgs, p) // the model predicts output that does not build
		default:
			errProgs = append(errProgs, p)
		}
	}
	// isolated: a deterministic sample of the predicted rejections
	if len(errProgs) > *maxIso {
		step := len(errProgs) / *maxIso
		var pick []progLine
		for i := 0; i < *maxIso; i++ {
			pick = append(pick, errProgs[i*step])
		}
		errProgs = pick
	}

	type job struct {
		id    string
		progs []progLine
	}
	var jobs []job
	for i := 0; i < len(okProgs); i += *batchSize {
		j := i + *batchSize
		if j > len(okProgs) {
			j = len(okProgs)
		}
		jobs = append(jobs, job{fmt.Sprintf("b%d", len(jobs)), okProgs[i:j]})
	}
	for i := 0; i < len(unbProgs); i += 8 {
		j := i + 8
		if j > len(unbProgs) {
			j = len(unbProgs)
		}
		jobs = append(jobs, job{fmt.Sprintf("u%d", i/8), unbProgs[i:j]})
	}
	for i, p := range errProgs {
		jobs = append(jobs, job{fmt.Sprintf("e%d", i), []progLine{p}})
	}

	self, _ := os.Executable()
	var mu sync.Mutex
	var results []runResult
	styles := []mg.Style{{CoImport: "co"}, {CoImport: "."}, {CoImport: "yy"}, {CoImport: "co", SeqAlso: true},
		{CoImport: "co", SeqName: "sq"}, {CoImport: ".", SeqName: "."}, {CoImport: "yy", SeqName: "_"}, {CoImport: ".", SeqName: "_"},
		{CoImport: "co", TypeSwitch: true}, {CoImport: ".", TypeSwitch: true}, {CoImport: "co", SeqName: "sq", TypeSwitch: true}}

	type okBatch struct {
		id    string
		names []string
		progs []*mg.Prog
		style mg.Style
	}
	var okBatches []okBatch
	nTypeSwitches := 0 // switch statements rendered as type switches (Style.TypeSwitch)
	defer func() {
		b, _ := json.Marshal(map[string]int{"switches_rendered_as_type_switches": nTypeSwitches, "import_and_switch_styles": len(styles)})
		os.WriteFile(filepath.Join(*dir, "style_stats.json"), b, 0o644)
	}()
	var compileBatch func(id string, ps []progLine, style mg.Style)
	compileBatch = func(id string, ps []progLine, style mg.Style) {
		src := filepath.Join(mod, "src", id)
		dst := filepath.Join(mod, "out", id)
		keep := filepath.Join(mod, "tmp", id)
		os.RemoveAll(src)
		os.RemoveAll(dst)
		os.MkdirAll(src, 0o755)
		var mp []*mg.Prog
		for _, p := range ps {
			mp = append(mp, &mg.Prog{Name: p.Name, Body: p.Body})
		}
		coSrc := mg.RenderCo(id, "scratch/vm", style, mp)
		mu.Lock()
		nTypeSwitches += strings.Count(coSrc, ".(type)")
		mu.Unlock()
		os.WriteFile(filepath.Join(src, "gen.go"), []byte(coSrc), 0o644)
		cmd := exec.Command(self, "compile-one", "-src", src, "-dst", dst)
		cmd.Dir = mod
		cmd.Env = append(os.Environ(), "VERIF_KEEP_TMP="+keep)
		outb, err := cmd.CombinedOutput()
		outs := string(outb)
		if err != nil {
			msg := lastLineWith(outs, "PANIC ")
			if msg == "" {
				msg = "CRASH " + tail(outs, 300)
			}
			os.RemoveAll(dst)
			os.RemoveAll(keep)
			if len(ps) == 1 {
				mu.Lock()
				results = append(results, runResult{Name: ps[0].Name, Status: "panic", Msg: msg, Batch: id})
				mu.Unlock()
				return
			}
			// bisect
			h := len(ps) / 2
			compileBatch(id+"x", ps[:h], style)
			compileBatch(id+"y", ps[h:], style)
			return
		}
		tmpSrc, _ := os.ReadFile(filepath.Join(keep, "gen.go"))
		{
			// the intermediate output keeps the co import even when nothing uses it any more (the
			// optimiser's import clean-up removes it); add a use so that the package builds
			use := "co.Iter[int]"
			switch style.CoImport {
			case ".":
				use = "Iter[int]"
			case "", "co":
			default:
				use = style.CoImport + ".Iter[int]"
			}
			os.WriteFile(filepath.Join(keep, "gen.go"), append(append([]byte{}, tmpSrc...), []byte("\nvar _ "+use+"\n")...), 0o644)
		}
		finSrc, _ := os.ReadFile(filepath.Join(dst, "gen.go"))
		tmpF, err1 := mg.ParseFile(string(tmpSrc), "G")
		finF, err2 := mg.ParseFile(string(finSrc), "G")
		scS, _ := mg.ScopeReport(coSrc, "G")
		scT, _ := mg.ScopeReport(string(tmpSrc), "G")
		scF, _ := mg.ScopeReport(string(finSrc), "G")
		mu.Lock()
		ob := okBatch{id: id, progs: mp, style: style}
		for _, p := range ps {
			ob.names = append(ob.names, p.Name)
		}
		okBatches = append(okBatches, ob)
		for _, p := range ps {
			rr := runResult{Name: p.Name, Status: "ok", Batch: id}
			if err1 != nil || err2 != nil || tmpF[p.Name] == nil || finF[p.Name] == nil {
				rr.Status = "missing"
				rr.Msg = fmt.Sprint(err1, err2)
			} else {
				rr.Tmp = (&mg.Prog{Body: tmpF[p.Name]}).Sexp().String()
				rr.Final = (&mg.Prog{Body: finF[p.Name]}).Sexp().String()
				rr.ScopeS, rr.ScopeT, rr.ScopeF = scS[p.Name], scT[p.Name], scF[p.Name]
			}
			results = append(results, rr)
		}
		mu.Unlock()
	}

	sem := make(chan struct{}, *par)
	var wg sync.WaitGroup
	for i, j := range jobs {
		wg.Add(1)
		sem <- struct{}{}
		go func(i int, j job) {
			defer wg.Done()
			defer func() { <-sem }()
			compileBatch(j.id, j.progs, styles[i%len(styles)])
		}(i, j)
	}
	wg.Wait()

	// ---- build and run every generated package next to the reference coroutine ----
	if !*noRun {
		byName := map[string]*runResult{}
		for i := range results {
			byName[results[i].Name] = &results[i]
		}
		sem2 := make(chan struct{}, 6)
		for _, ob := range okBatches {
			wg.Add(1)
			sem2 <- struct{}{}
			go func(ob okBatch) {
				defer wg.Done()
				defer func() { <-sem2 }()
				buildErrs, traces := buildAndRun(mod, ob.id, ob.names, ob.progs, *fuel, *maxPull)
				mu.Lock()
				defer mu.Unlock()
				for _, n := range ob.names {
					r := byName[n]
					if be, bad := buildErrs[n]; bad {
						r.Build = be
						continue
					}
					r.RunC = traces["C "+n]
					r.RunR = traces["R "+n]
					r.RunT = traces["T "+n]
				}
			}(ob)
		}
		wg.Wait()
	}
	sort.Slice(results, func(a, b int) bool { return results[a].Name < results[b].Name })
	f, _ := os.Create(filepath.Join(*dir, "results.jsonl"))
	w := bufio.NewWriter(f)
	for _, r := range results {
		b, _ := json.Marshal(r)
		w.Write(b)
		w.WriteByte('\n')
	}
	w.Flush()
	f.Close()
}

func lastLineWith(s, prefix string) string {
	lines := strings.Split(s, "\n")
	for i := len(lines) - 1; i >= 0; i-- {
		if strings.HasPrefix(lines[i], prefix) {
			return lines[i]
		}
	}
	return ""
}

func tail(s string, n int) string {
	s = strings.ReplaceAll(s, "\n", " | ")
	if len(s) > n {
		return s[len(s)-n:]
	}
	return s
}

func readLines(p string) []string {
	data, err := os.ReadFile(p)
	if err != nil {
		return nil
	}
	lines := strings.Split(string(data), "\n")
	if len(lines) > 0 && lines[len(lines)-1] == "" {
		lines = lines[:len(lines)-1]
	}
	return lines
}

func readProgs(p string) []progLine {
	var out []progLine
	for _, l := range readLines(p) {
		parts := strings.SplitN(l, "\t", 2)
		if len(parts) != 2 {
			continue
		}
		body, err := mg.ParseBody(parts[1])
		if err != nil {
			fmt.Fprintln(os.Stderr, "bad program:", err)
			os.Exit(2)
		}
		out = append(out, progLine{Name: parts[0], Body: body, Sexp: parts[1]})
	}
	return out
}

// blame: which functions of dir/gen.go do the compiler's error lines fall into?
func blame(mod, rel string, buildOut string) map[string]bool {
	out := map[string]bool{}
	src, err := os.ReadFile(filepath.Join(mod, rel))
	if err != nil {
		return out
	}
	fset := token.NewFileSet()
	f, err := parser.ParseFile(fset, "gen.go", src, parser.SkipObjectResolution)
	if err != nil {
		return out
	}
	re := regexp.MustCompile(regexp.QuoteMeta(rel) + `:(\d+):`)
	for _, m := range re.FindAllStringSubmatch(buildOut, -1) {
		line, _ := strconv.Atoi(m[1])
		for _, d := range f.Decls {
			if fd, ok := d.(*ast.FuncDecl); ok {
				if fset.Position(fd.Pos()).Line <= line && line <= fset.Position(fd.End()).Line {
					out[fd.Name.Name] = true
				}
			}
		}
	}
	return out
}

// dropFuncs removes the named top-level functions from a Go file (so that the rest still builds)
func dropFuncs(path string, names map[string]bool) {
	src, err := os.ReadFile(path)
	if err != nil {
		return
	}
	fset := token.NewFileSet()
	f, err := parser.ParseFile(fset, path, src, parser.SkipObjectResolution|parser.ParseComments)
	if err != nil {
		return
	}
	type span struct{ a, b int }
	var spans []span
	for _, d := range f.Decls {
		if fd, ok := d.(*ast.FuncDecl); ok && names[fd.Name.Name] {
			a := fset.Position(fd.Pos()).Offset
			if fd.Doc != nil {
				a = fset.Position(fd.Doc.Pos()).Offset
			}
			spans = append(spans, span{a, fset.Position(fd.End()).Offset})
		}
	}
	out := []byte{}
	last := 0
	for _, sp := range spans {
		out = append(out, src[last:sp.a]...)
		last = sp.b
	}
	out = append(out, src[last:]...)
	os.WriteFile(path, out, 0o644)
}

// buildAndRun returns per-function build errors and traces
func buildAndRun(mod, id string, names []string, progs []*mg.Prog, fuel, pulls int) (map[string]string, map[string]string) {
	buildErrs := map[string]string{}
	refDir := filepath.Join(mod, "ref", id)
	cmdDir := filepath.Join(mod, "cmd", id)
	os.MkdirAll(refDir, 0o755)
	os.MkdirAll(cmdDir, 0o755)
	bin := filepath.Join(mod, "bin", id)
	os.MkdirAll(filepath.Dir(bin), 0o755)
	for attempt := 0; attempt < 3; attempt++ {
		var live []string
		var liveProgs []*mg.Prog
		for i, n := range names {
			if _, bad := buildErrs[n]; !bad {
				live = append(live, n)
				liveProgs = append(liveProgs, progs[i])
			}
		}
		if len(live) == 0 {
			return buildErrs, nil
		}
		os.WriteFile(filepath.Join(refDir, "ref.go"), []byte(mg.RenderRef(id+"ref", "scratch/vm", liveProgs)), 0o644)
		var b strings.Builder
		fmt.Fprintf(&b, "package main\n\nimport (\n\t\"fmt\"\n\t\"strings\"\n\t\"scratch/vm\"\n\tout \"scratch/out/%s\"\n\ttmp \"scratch/tmp/%s\"\n\tref \"scratch/ref/%s\"\n)\n\n", id, id, id)
		b.WriteString("func main() {\n")
		for _, n := range live {
			fmt.Fprintf(&b, "\tfmt.Println(\"C %s\", strings.Join(vm.Drain(func() vm.Puller { return out.%s() }, %d, %d), \" \"))\n", n, n, pulls, fuel)
			fmt.Fprintf(&b, "\tfmt.Println(\"T %s\", strings.Join(vm.Drain(func() vm.Puller { return tmp.%s() }, %d, %d), \" \"))\n", n, n, pulls, fuel)
			fmt.Fprintf(&b, "\tfmt.Println(\"R %s\", strings.Join(vm.Drain(func() vm.Puller { return vm.StartRef(ref.%s) }, %d, %d), \" \"))\n", n, n, pulls, fuel)
		}
		b.WriteString("}\n")
		os.WriteFile(filepath.Join(cmdDir, "main.go"), []byte(b.String()), 0o644)
		cmd := exec.Command("go", "build", "-o", bin, "./cmd/"+id)
		cmd.Dir = mod
		outb, err := cmd.CombinedOutput()
		if err == nil {
			break
		}
		bo := string(outb)
		bad := blame(mod, filepath.Join("out", id, "gen.go"), bo)
		for n := range blame(mod, filepath.Join("tmp", id, "gen.go"), bo) {
			bad[n] = true
		}
		if len(bad) == 0 || attempt == 2 {
			// cannot attribute: the whole batch is unbuildable
			for _, n := range live {
				buildErrs[n] = "BUILD(batch) " + tail(bo, 800)
			}
			return buildErrs, nil
		}
		for n := range bad {
			buildErrs[n] = "BUILD " + tail(bo, 800)
		}
		dropFuncs(filepath.Join(mod, "out", id, "gen.go"), bad)
		dropFuncs(filepath.Join(mod, "tmp", id, "gen.go"), bad)
	}
	run := exec.Command("timeout", "120", bin)
	run.Dir = mod
	outb, err := run.CombinedOutput()
	if err != nil {
		for _, n := range names {
			if _, bad := buildErrs[n]; !bad {
				buildErrs[n] = "RUN " + tail(string(outb), 800)
			}
		}
		return buildErrs, nil
	}
	traces := map[string]string{}
	for _, l := range strings.Split(string(outb), "\n") {
		parts := strings.SplitN(l, " ", 3)
		if len(parts) == 3 {
			traces[parts[0]+" "+parts[1]] = parts[2]
		} else if len(parts) == 2 {
			traces[parts[0]+" "+parts[1]] = ""
		}
	}
	os.Remove(bin)
	return buildErrs, traces
}
