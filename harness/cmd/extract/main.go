// extract: regenerates lean/GoCo/Facts/Extracted.lean from the current source of /repo.
// For every top-level declaration of the modelled files it emits a 60-bit hash of the declaration's
// comment-free, gofmt-normalised text, plus structural counts (package-level variables, go statements,
// recover calls, sync/atomic imports) for the packages the models assume to be free of shared state.
// The Lean side (GoCo/Facts/Expect.lean + G_*.lean) proves that these equal what the models were
// written against; facts.json names every declaration so that a failing fact can be attributed.
package main

import (
	"bytes"
	"crypto/sha256"
	"encoding/binary"
	"encoding/json"
	"flag"
	"fmt"
	"go/ast"
	"go/parser"
	"go/printer"
	"go/token"
	"os"
	"path/filepath"
	"sort"
	"strings"
)

var files = []string{
	"seq/seq.go", "seq/iter.go", "co.go",
	"rewriter/yield_rewrite.go", "rewriter/yield_block.go", "rewriter/yield_ast.go", "rewriter/return.go",
	"rewriter/range.go", "rewriter/yieldfrom_rewrite.go", "rewriter/rewrite.go", "rewriter/optimize.go",
	"rewriter/compile.go", "rewriter/etc.go", "rewriter/const.go", "cmd/cogen/main.go",
}

func ident(s string) string {
	var b strings.Builder
	for _, c := range s {
		if c >= 'a' && c <= 'z' || c >= 'A' && c <= 'Z' || c >= '0' && c <= '9' {
			b.WriteRune(c)
		} else {
			b.WriteByte('_')
		}
	}
	return b.String()
}

func hash60(s string) uint64 {
	h := sha256.Sum256([]byte(s))
	return binary.BigEndian.Uint64(h[:8]) >> 4
}

func main() {
	repo := flag.String("repo", "/repo", "")
	out := flag.String("out", "", "Extracted.lean")
	jsonOut := flag.String("json", "", "facts.json (optional)")
	expect := flag.String("expect", "", "if set, also write Expect.lean with the current values")
	flag.Parse()

	type fact struct {
		Name string
		Val  uint64
		File string
		Decl string
	}
	var facts []fact
	counts := map[string]int{}
	for _, rel := range files {
		fset := token.NewFileSet()
		f, err := parser.ParseFile(fset, filepath.Join(*repo, rel), nil, parser.SkipObjectResolution)
		group := ident(strings.TrimSuffix(rel, ".go"))
		if err != nil {
			facts = append(facts, fact{Name: "h_" + group + "__parse", Val: 0, File: rel, Decl: "(parse error)"})
			continue
		}
		pkg := strings.Split(rel, "/")[0]
		seen := map[string]int{}
		for _, d := range f.Decls {
			var name string
			switch d := d.(type) {
			case *ast.FuncDecl:
				name = d.Name.Name
				if d.Recv != nil && len(d.Recv.List) > 0 {
					var b bytes.Buffer
					printer.Fprint(&b, fset, d.Recv.List[0].Type)
					name = ident(b.String()) + "_" + name
				}
				d.Doc = nil
			case *ast.GenDecl:
				if d.Tok == token.IMPORT {
					for _, s := range d.Specs {
						p := s.(*ast.ImportSpec).Path.Value
						if strings.Contains(p, "sync") {
							counts["sync_imports_"+pkg]++
						}
					}
					continue
				}
				d.Doc = nil
				name = strings.ToLower(d.Tok.String())
				if len(d.Specs) > 0 {
					switch s := d.Specs[0].(type) {
					case *ast.TypeSpec:
						name += "_" + s.Name.Name
					case *ast.ValueSpec:
						name += "_" + s.Names[0].Name
					}
				}
				if d.Tok == token.VAR {
					counts["package_vars_"+pkg] += len(d.Specs)
				}
			}
			seen[name]++
			if seen[name] > 1 {
				name = fmt.Sprintf("%s_%d", name, seen[name])
			}
			var b bytes.Buffer
			printer.Fprint(&b, fset, d)
			facts = append(facts, fact{Name: "h_" + group + "__" + ident(name), Val: hash60(b.String()), File: rel, Decl: name})
		}
		ast.Inspect(f, func(n ast.Node) bool {
			switch n := n.(type) {
			case *ast.GoStmt:
				counts["go_stmts_"+pkg]++
			case *ast.CallExpr:
				if id, ok := n.Fun.(*ast.Ident); ok && id.Name == "recover" {
					counts["recover_calls_"+pkg]++
				}
			}
			return true
		})
		// number of declarations in the file: a new declaration is a change too
		facts = append(facts, fact{Name: "n_" + group, Val: uint64(len(f.Decls)), File: rel, Decl: "(number of declarations)"})
	}
	for _, k := range []string{"package_vars_seq", "go_stmts_seq", "recover_calls_seq", "sync_imports_seq", "package_vars_rewriter", "go_stmts_rewriter"} {
		facts = append(facts, fact{Name: "c_" + k, Val: uint64(counts[k]), File: "(counts)", Decl: k})
	}
	sort.SliceStable(facts, func(i, j int) bool { return facts[i].File < facts[j].File })

	write := func(path, ns, header string) {
		var b strings.Builder
		b.WriteString(header)
		fmt.Fprintf(&b, "namespace GoCo.Facts.%s\n\n", ns)
		for _, f := range facts {
			fmt.Fprintf(&b, "def %s : Nat := %d  -- %s: %s\n", f.Name, f.Val, f.File, f.Decl)
		}
		fmt.Fprintf(&b, "\nend GoCo.Facts.%s\n", ns)
		os.MkdirAll(filepath.Dir(path), 0o755)
		os.WriteFile(path, []byte(b.String()), 0o644)
	}
	write(*out, "Extracted", "-- GENERATED on every check run from /repo by harness/cmd/extract; do not edit.\n")
	if *expect != "" {
		write(*expect, "Expect", "-- What the Lean models were written against (regenerate with `go run ./cmd/extract -expect` after\n-- re-validating the models against a changed source).\n")
		// one theorem module per source file
		byFile := map[string][]fact{}
		for _, f := range facts {
			byFile[f.File] = append(byFile[f.File], f)
		}
		dir := filepath.Dir(*expect)
		var mods []string
		for file, fs := range byFile {
			g := ident(strings.TrimSuffix(file, ".go"))
			if file == "(counts)" {
				g = "counts"
			}
			var b strings.Builder
			b.WriteString("-- one fact module per source file: the file's declarations are the ones the model was written against\n")
			b.WriteString("import GoCo.Facts.Extracted\nimport GoCo.Facts.Expect\n\nnamespace GoCo.Facts\n\n")
			fmt.Fprintf(&b, "theorem facts_%s :\n", g)
			for i, f := range fs {
				sep := " ∧"
				if i == len(fs)-1 {
					sep = " := by decide"
				}
				fmt.Fprintf(&b, "    Extracted.%s = Expect.%s%s\n", f.Name, f.Name, sep)
			}
			b.WriteString("\nend GoCo.Facts\n")
			os.WriteFile(filepath.Join(dir, "G_"+g+".lean"), []byte(b.String()), 0o644)
			mods = append(mods, "G_"+g)
		}
		sort.Strings(mods)
		fmt.Println(strings.Join(mods, " "))
	}
	if *jsonOut != "" {
		m := map[string]any{}
		for _, f := range facts {
			m[f.Name] = map[string]any{"value": f.Val, "file": f.File, "decl": f.Decl}
		}
		b, _ := json.MarshalIndent(m, "", " ")
		os.WriteFile(*jsonOut, b, 0o644)
	}
}
