// vrace: parallel consumption of iterators on many goroutines (built with -race by the C14 check).
// Every goroutine drains its own iterators and compares with the sequence computed alone; the race
// detector reports unsynchronised shared runtime state.
package main

import (
	"fmt"
	"os"
	"strings"
	"sync"

	"github.com/goghcrow/go-co/seq"

	"verif/harness/it"
	"verif/harness/rt"
)

func main() {
	terms := rt.Random(24, 4, 12, 7, false)
	strs := []string{"worker-1-Bb", "héllo wörld", "日本語テキスト", "a\xffb\xc3", "zzzzzzzz", "😀😀😀", "plain ascii text", "\xed\xa0\x80x"}
	// expectations computed alone, on this goroutine
	type job struct {
		name string
		run  func() string
		want string
	}
	var jobs []job
	for i, s := range strs {
		s := s
		jobs = append(jobs, job{name: fmt.Sprintf("string#%d", i), run: func() string { return it.StrImpl(s) }})
	}
	for i, t := range terms {
		t := t
		jobs = append(jobs, job{name: fmt.Sprintf("term#%d", i), run: func() string { return rt.RunOps(t, rt.Drain(6)) }})
	}
	for n := 0; n < 6; n++ {
		n := n
		jobs = append(jobs, job{name: fmt.Sprintf("int#%d", n), run: func() string { return it.IntImpl(n) }})
		jobs = append(jobs, job{name: fmt.Sprintf("map#%d", n), run: func() string { return it.MapTypedImpl(n) }})
		jobs = append(jobs, job{name: fmt.Sprintf("slice#%d", n), run: func() string {
			var b []string
			sl := make([]int, n)
			iter := seq.NewSliceIter(sl)
			for iter.MoveNext() {
				b = append(b, fmt.Sprint(iter.Current().Key))
			}
			return strings.Join(b, " ")
		}})
	}
	for i := range jobs {
		jobs[i].want = jobs[i].run()
	}
	bad := 0
	var mu sync.Mutex
	var wg sync.WaitGroup
	for round := 0; round < 40; round++ {
		for i := range jobs {
			wg.Add(1)
			go func(j job) {
				defer wg.Done()
				for k := 0; k < 5; k++ {
					if got := j.run(); got != j.want {
						mu.Lock()
						if bad < 5 {
							fmt.Printf("INTERFERENCE %s: alone %q, in parallel %q\n", j.name, j.want, got)
						}
						bad++
						mu.Unlock()
					}
				}
			}(jobs[i])
		}
		wg.Wait()
	}
	if bad > 0 {
		fmt.Printf("interference in %d runs\n", bad)
		os.Exit(1)
	}
	fmt.Printf("ok: %d jobs x 40 rounds x 5 runs in parallel, no interference\n", len(jobs))
}
