package tb

import (
	"fmt"
	"strings"
)

// Cross: a combinatorial family of small generators - every feature snippet placed in every statement
// context.  Hand-written templates cover deep interactions; this family makes sure every lowering (range
// kinds and variable forms, YieldFrom, consumer loops, init statements, shadowing, closures) is exercised
// at every position of the statement grammar (top level, both if branches, loop bodies, switch clauses,
// after a yield, inside a shadowing block, inside a range body, next to break / continue).
type crossCtx struct {
	name string
	wrap string // HOLE is replaced by the feature snippet
}

type crossFeat struct {
	name  string
	props []string
	code  string // uses n (int) and may use GENCALL(int, @Sub, ..); every name it declares is local to it
}

var crossCtxs = []crossCtx{
	{"top", `HOLE`},
	{"then", `if n >= 0 { HOLE } else { YIELD(-1) }`},
	{"else", `if n < 0 { YIELD(-1) } else { HOLE }`},
	{"elif", `if n < 0 { YIELD(-1) } else if n < 100 { HOLE } else { YIELD(-2) }`},
	{"for", `for r := 0; r < 2; r++ { HOLE }`},
	{"while", `r := 0
	for r < 2 { r++; HOLE }`},
	{"case", `switch n % 2 { case 0: YIELD(-3); default: HOLE }`},
	{"tagless", `switch { case n > 100: YIELD(-4); case n > 0: HOLE }`},
	{"afteryield", `YIELD(1000)
	HOLE
	YIELD(2000)`},
	{"shadowblock", `x := 1
	{ x := 2; _ = x; HOLE }
	YIELD(x)`},
	{"rangebody", `for _, q := range []int{7, 8} { _ = q; HOLE }`},
	{"brkcont", `for r := 0; r < 4; r++ { if r == 1 { continue }; HOLE; if r == 2 { break } }`},
	{"closurearound", `t := 0
	add := func(d int) { t += d }
	add(1)
	HOLE
	add(1)
	YIELD(t)`},
}

var crossFeats = []crossFeat{
	{"rangeSliceKV", []string{"C04", "C03"}, `for i, v := range []int{n, n + 1} { YIELD(i*10 + v) }`},
	{"rangeSliceAssign", []string{"C04", "C03"}, `{ var i, v int; for i, v = range []int{n, n + 1} { YIELD(v) }; YIELD(i*100 + v) }`},
	{"rangeString", []string{"C04", "C10"}, `for i, c := range "aé" { YIELD(i*1000 + int(c)) }`},
	{"rangeInt", []string{"C04", "C10"}, `for k := range 3 { YIELD(k) }`},
	{"rangeMap", []string{"C04"}, `{ m := map[int]int{n: 7}; for k, v := range m { YIELD(k + v) } }`},
	{"rangeChan", []string{"C04"}, `{ ch := make(chan int, 2); ch <- n; ch <- n + 1; close(ch); for v := range ch { YIELD(v) } }`},
	{"rangeArrayIdx", []string{"C04"}, `{ a := [3]int{4, 5, 6}; for i := range a { YIELD(i + a[i]) } }`},
	{"rangeMutate", []string{"C04"}, `{ xs := []int{1, 2, 3}; for i, v := range xs { xs[2] = 9; xs = append(xs, 4); YIELD(i + v) } }`},
	{"yieldFrom", []string{"C05"}, `YIELDFROM(GENCALL(int, @Sub, n))`},
	{"yieldFromTwice", []string{"C05"}, `{ it := GENCALL(int, @Sub, n); if it.MoveNext() { YIELD(-it.Current()) }; YIELDFROM(it); YIELDFROM(it) }`},
	{"consumer", []string{"C06"}, `RANGEITER(v, :=, GENCALL(int, @Sub, n)) { if v == 1 { continue }; YIELD(v * 2) }`},
	{"consumerBreak", []string{"C06", "C02"}, `{ it := GENCALL(int, @Sub, n); RANGEITER(v, :=, it) { if v >= 1 { break }; YIELD(v) }; if it.MoveNext() { YIELD(100 + it.Current()) } }`},
	{"closure", []string{"C03"}, `{ c := 0; inc := func() int { c++; return c }; YIELD(inc()); YIELD(inc()); YIELD(c) }`},
	{"shadow", []string{"C03"}, `{ v := n; { v := v + 1; YIELD(v) }; YIELD(v) }`},
	{"switchInit", []string{"C03", "C01"}, `switch m := n + 1; m { case 1: YIELD(m); default: YIELD(-m) }`},
	{"ifInit", []string{"C03", "C01"}, `if m := n * 2; m > 2 { YIELD(m) } else { YIELD(-m) }`},
	{"forMultiInit", []string{"C03", "C01"}, `{ i := n + 7; for i, j := 0, 10; i < 2; i, j = i+1, j-1 { YIELD(i*100 + j) }; YIELD(i) }`},
	{"switchMultiInit", []string{"C03", "C01"}, `{ a := n + 7; switch a, b := 1, 2; { case a < b: YIELD(a + b); default: YIELD(-a) }; YIELD(a) }`},
	{"ifMultiInit", []string{"C03", "C01"}, `{ a := n + 7; if a, b := 1, n; a < b { YIELD(a + b) } else { YIELD(a - b) }; YIELD(a) }`},
	{"forInitShadowsParam", []string{"C03"}, `{ for n := 0; n < 2; n++ { YIELD(n) }; YIELD(n) }`},
	{"forPostYield", []string{"C01"}, `for i := 0; i < 2; YIELD(100 + i) { i++ }`},
	{"forInitYield", []string{"C01"}, `{ i := 0; for YIELD(50); i < 2; i++ { YIELD(i) } }`},
	{"loopBrkCont", []string{"C01"}, `for i := 0; i < 4; i++ { if i == 1 { continue }; YIELD(i); if i == 2 { break } }`},
	{"typeSwitch", []string{"C01", "C03"}, `{ var a any = n; switch t := a.(type) { case int: YIELD(t); case string: YIELD(len(t)); default: YIELD(-1) } }`},
	{"pointer", []string{"C03"}, `{ x := n; p := &x; YIELD(*p); *p = 5; YIELD(x) }`},
	{"nestedRange", []string{"C04", "C15"}, `for i := range []int{0, 0} { for j := range []int{0, 0} { YIELD(i*2 + j) } }`},
	{"effectOrder", []string{"C02"}, `{ vm.E("before", n); YIELD(n); vm.E("after", n) }`},
	{"panicAfter", []string{"C18"}, `{ YIELD(n); if n == 99 { panic("x") }; YIELD(n + 1) }`},
}

// CrossTemplates renders the family as ordinary templates
func CrossTemplates() []Template {
	var out []Template
	for _, c := range crossCtxs {
		for _, f := range crossFeats {
			body := strings.ReplaceAll(c.wrap, "HOLE", f.code)
			src := fmt.Sprintf(`
GEN(int) @Sub(n int) {
	for i := 0; i < 3; i++ { YIELD(n*10 + i) }
	RETURN
}
GEN(int) @G(n int) {
	%s
	RETURN
}`, body)
			props := append([]string{"C01"}, f.props...)
			out = append(out, Template{Name: "X_" + c.name + "_" + f.name, Props: props, Src: src,
				Drives: []Drive{gen("int", "@G", "3"), gen("int", "@G", "0")}})
		}
	}
	return out
}
