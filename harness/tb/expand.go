// Package tb: template programs ("mode B"): real Go code with variables, closures, ranges, YieldFrom and
// consumer loops, written once with a few macros and rendered twice - as a co source for the compiler
// and as a reference that runs every generator on the goroutine-based reference coroutine.
//
//	GEN(T) name(params) {      generator function            co: func name(params) co.Iter[T] {
//	                                                         ref: func name(y *vm.YT[T], params) {
//	GENM(T) (recv) name(params) {   generator method
//	GENLIT(T) (params) {       generator function literal
//	YIELD(e)  YIELDFROM(it)  RETURN
//	GENCALL(T, f, args…)       calling a generator: an iterator value in both worlds
//	ITER(T)                    the iterator type           co: co.Iter[T]     ref: vm.PullerOf[T]
//	YIELDT(T, e)               a yield with an explicit type argument   co: co.Yield[T](e)   ref: y.Yield(e)
//	YIELDFROMT(T, it)          a delegation with an explicit type argument   co: co.YieldFrom[T](it)
//	RETURNX(e)                 return with an operand      co: return e       ref: { _ = e; return }
//	ITERFIELD()                name of an embedded field of that type   co: Iter   ref: PullerOf
//	RANGEITER(v, tok, e) {     consumer loop               co: for v tok range e {
//	                                                         ref: for it := e; it.MoveNext(); { v tok it.Current()
//	@                          replaced by the instance prefix
package tb

import (
	"fmt"
	"strings"
)

// splitArgs splits "a, f(b, c), d" at top-level commas
func splitArgs(s string) []string {
	var out []string
	depth, start := 0, 0
	inStr := byte(0)
	for i := 0; i < len(s); i++ {
		c := s[i]
		if inStr != 0 {
			if c == '\\' {
				i++
			} else if c == inStr {
				inStr = 0
			}
			continue
		}
		switch c {
		case '"', '\'', '`':
			inStr = c
		case '(', '[', '{':
			depth++
		case ')', ']', '}':
			depth--
		case ',':
			if depth == 0 {
				out = append(out, strings.TrimSpace(s[start:i]))
				start = i + 1
			}
		}
	}
	if strings.TrimSpace(s[start:]) != "" || len(out) > 0 {
		out = append(out, strings.TrimSpace(s[start:]))
	}
	return out
}

// matchParen returns the index of the ')' matching the '(' at s[open]
// matchBrace: index of the '}' closing the '{' at position open (strings and runes skipped)
func matchBrace(s string, open int) int {
	depth := 0
	inStr := byte(0)
	for i := open; i < len(s); i++ {
		c := s[i]
		if inStr != 0 {
			if c == '\\' && inStr != '`' {
				i++
			} else if c == inStr {
				inStr = 0
			}
			continue
		}
		switch c {
		case '"', '\'', '`':
			inStr = c
		case '{':
			depth++
		case '}':
			depth--
			if depth == 0 {
				return i
			}
		}
	}
	return -1
}

func matchParen(s string, open int) int {
	depth := 0
	inStr := byte(0)
	for i := open; i < len(s); i++ {
		c := s[i]
		if inStr != 0 {
			if c == '\\' {
				i++
			} else if c == inStr {
				inStr = 0
			}
			continue
		}
		switch c {
		case '"', '\'', '`':
			inStr = c
		case '(':
			depth++
		case ')':
			depth--
			if depth == 0 {
				return i
			}
		}
	}
	return -1
}

type expander struct {
	ref  bool
	co   string // name of the co import in the co rendering ("co", "" for dot import, or an alias)
	itN  int
	errs []string
}

func (x *expander) q(name string) string { // qualified co identifier
	if x.co == "" {
		return name
	}
	return x.co + "." + name
}

var macros = []string{"GENCALL", "YIELDVALUE", "YIELDFROMT", "YIELDFROM", "YIELDT", "YIELD", "RANGEITER", "RETURNX", "ITERFIELD", "ITER", "GENLIT", "GENM", "GEN"}

// expand rewrites every macro occurrence, innermost arguments first
func (x *expander) expand(s string) string {
	var b strings.Builder
	i := 0
	for i < len(s) {
		matched := false
		for _, m := range macros {
			if strings.HasPrefix(s[i:], m+"(") && (i == 0 || !isIdent(s[i-1])) {
				open := i + len(m)
				cl := matchParen(s, open)
				if cl < 0 {
					x.errs = append(x.errs, "unbalanced "+m)
					b.WriteString(s[i:])
					return b.String()
				}
				args := splitArgs(s[open+1 : cl])
				for k := range args {
					args[k] = x.expand(args[k])
				}
				rest, consumed := x.macro(m, args, s[cl+1:])
				b.WriteString(rest)
				i = cl + 1 + consumed
				matched = true
				break
			}
		}
		if matched {
			continue
		}
		if strings.HasPrefix(s[i:], "RETURN") && (i == 0 || !isIdent(s[i-1])) && (i+6 >= len(s) || !isIdent(s[i+6])) {
			if x.ref {
				b.WriteString("return")
			} else {
				b.WriteString("return nil")
			}
			i += 6
			continue
		}
		b.WriteByte(s[i])
		i++
	}
	return b.String()
}

func isIdent(c byte) bool {
	return c == '_' || c >= 'a' && c <= 'z' || c >= 'A' && c <= 'Z' || c >= '0' && c <= '9'
}

// macro returns the replacement text and how many bytes of `after` it consumed (for headers)
func (x *expander) macro(m string, args []string, after string) (string, int) {
	switch m {
	case "YIELD":
		if x.ref {
			return "y.Yield(" + strings.Join(args, ", ") + ")", 0
		}
		return x.q("Yield") + "(" + strings.Join(args, ", ") + ")", 0
	case "YIELDT":
		// a yield with an explicit type argument: YIELDT(T, e)
		if x.ref {
			// the type argument converts an untyped operand: Yield[float64](1) yields a float64
			return "y.Yield((" + args[0] + ")(" + args[1] + "))", 0
		}
		return x.q("Yield") + "[" + args[0] + "](" + args[1] + ")", 0
	case "YIELDVALUE":
		// the yield function as a value: YIELDVALUE(T)   co: co.Yield[T]   ref: y.Yield
		if x.ref {
			return "y.Yield", 0
		}
		return x.q("Yield") + "[" + args[0] + "]", 0
	case "YIELDFROMT":
		// a delegation with an explicit type argument: YIELDFROMT(T, it)
		if x.ref {
			return "vm.YieldFromRef(y, " + args[1] + ")", 0
		}
		return x.q("YieldFrom") + "[" + args[0] + "](" + args[1] + ")", 0
	case "YIELDFROM":
		if x.ref {
			return "vm.YieldFromRef(y, " + args[0] + ")", 0
		}
		return x.q("YieldFrom") + "(" + args[0] + ")", 0
	case "RETURNX":
		// `return e` with a non-nil operand: the operand is evaluated (and ignored), then the generator ends
		if x.ref {
			return "{ _ = " + args[0] + "; return }", 0
		}
		return "return " + args[0], 0
	case "ITERFIELD":
		// the name of an embedded field of the iterator type: ITERFIELD()
		if x.ref {
			return "PullerOf", 0
		}
		return "Iter", 0
	case "ITER":
		if x.ref {
			return "vm.PullerOf[" + args[0] + "]", 0
		}
		return x.q("Iter") + "[" + args[0] + "]", 0
	case "GENCALL":
		t, f, rest := args[0], args[1], args[2:]
		if x.ref {
			a := append([]string{"y"}, rest...)
			return fmt.Sprintf("vm.PullerOf[%s](vm.StartRefT[%s](func(y *vm.YT[%s]) { %s(%s) }))", t, t, t, f, strings.Join(a, ", ")), 0
		}
		return f + "(" + strings.Join(rest, ", ") + ")", 0
	case "RANGEITER":
		v, tok, e := args[0], args[1], args[2]
		// consume the following " {"
		j := strings.Index(after, "{")
		if x.ref {
			x.itN++
			it := fmt.Sprintf("it__%d", x.itN)
			if v == "" {
				return fmt.Sprintf("for %s := %s; %s.MoveNext(); {", it, e, it), j + 1
			}
			if tok == ":=" {
				// Go scopes the loop variable outside the body block: the body may redeclare it
				if k := matchBrace(after, j); k > 0 {
					body := x.expand(after[j+1 : k])
					return fmt.Sprintf("for %s := %s; %s.MoveNext(); { %s := %s.Current(); _ = %s; {%s}}", it, e, it, v, it, v, body), k + 1
				}
			}
			return fmt.Sprintf("for %s := %s; %s.MoveNext(); { %s %s %s.Current();", it, e, it, v, tok, it), j + 1
		}
		if v == "" {
			return fmt.Sprintf("for range %s {", e), j + 1
		}
		return fmt.Sprintf("for %s %s range %s {", v, tok, e), j + 1
	case "GEN", "GENM", "GENLIT":
		// header: GEN(T) name(params) {   GENM(T) (recv) name(params) {   GENLIT(T) (params) {
		t := args[0]
		j := strings.Index(after, "{")
		hdr := strings.TrimSpace(after[:j])
		recv := ""
		if m == "GENM" {
			c := matchParen(hdr, 0)
			recv = hdr[:c+1] + " "
			hdr = strings.TrimSpace(hdr[c+1:])
		}
		po := strings.Index(hdr, "(")
		name := hdr[:po]
		params := strings.TrimSpace(hdr[po+1 : matchParen(hdr, po)])
		if x.ref {
			p := "y *vm.YT[" + t + "]"
			if params != "" {
				p += ", " + x.expand(params)
			}
			return fmt.Sprintf("func %s%s(%s) {", recv, name, p), j + 1
		}
		return fmt.Sprintf("func %s%s(%s) %s[%s] {", recv, name, x.expand(params), x.q("Iter"), t), j + 1
	}
	return "", 0
}

// Render expands a template source for one world. prefix replaces '@'.
func Render(src, prefix string, ref bool, coName string) (string, []string) {
	x := &expander{ref: ref, co: coName}
	out := x.expand(strings.ReplaceAll(src, "@", prefix))
	return out, x.errs
}
