package tb

// Drive: how the run harness exercises a template instance.
//
//	gen: drain the generator `Call(Args)` with consumer-side markers (every truncation is a prefix)
//	fn:  call the plain function `Call(Args)` and log its result
type Drive struct {
	Kind string // gen | fn
	T    string // element / result type
	Call string // @Name
	Args string // Go expression list; PKG. is replaced by the package qualifier
}

type Template struct {
	Name      string
	Props     []string
	Src       string
	Drives    []Drive
	MayReject bool   // the compiler may reject it with a diagnostic (C12); if it accepts, behaviour must agree
	Finding   string // id of the known finding this template is the witness of ("" = must agree)
	Sibling   string // a SECOND file of the package, which does not import the co package (macros as in Src)
	Imports   string // extra imports needed by the source
}

func gen(t, call, args string) Drive { return Drive{"gen", t, call, args} }
func fn(t, call, args string) Drive  { return Drive{"fn", t, call, args} }

var Templates = []Template{
	// ---------------- C04: range loops inside generators ----------------
	{Name: "RangeSliceKV", Props: []string{"C04", "C01"}, Src: `
GEN(int) @G(xs []int) {
	for i, v := range xs {
		vm.E("body", i, v)
		YIELD(i*100 + v)
	}
	vm.E("after")
	RETURN
}`, Drives: []Drive{gen("int", "@G", "nil"), gen("int", "@G", "[]int{}"), gen("int", "@G", "[]int{7, 8, 9}")}},

	{Name: "RangeSliceMutate", Props: []string{"C04"}, Src: `
GEN(int) @G(n int) {
	xs := make([]int, n, n+2)
	for i := range xs { xs[i] = i + 1 }
	for i, v := range xs {
		if i == 0 {
			xs[len(xs)-1] = 100 // live element read: must be seen
			xs = append(xs, 55) // length was evaluated once: not visited
		}
		YIELD(v)
	}
	YIELD(len(xs))
	RETURN
}`, Drives: []Drive{gen("int", "@G", "1"), gen("int", "@G", "3")}},

	{Name: "RangeSliceForms", Props: []string{"C04", "C03"}, Src: `
GEN(int) @G(xs []int) {
	var i, v int
	for i, v = range xs { // '=' form assigns outer variables
		YIELD(v)
	}
	YIELD(1000 + i*10 + v)
	n := 0
	for range xs { n++ }
	YIELD(2000 + n)
	v = -1
	for _, v = range xs { // value only, '=' form: assigns the OUTER v
		YIELD(5000 + v)
	}
	YIELD(6000 + v)
	seen := func() int { return v }
	for _, v = range xs { n += v }
	YIELD(7000 + seen())
	i = -1
	for i = range xs { n++ } // key only, '=' form
	YIELD(8000 + i)
	for i, _ = range xs { n++ }
	YIELD(8500 + i)
	for k := range xs { YIELD(3000 + k) }
	for _, w := range xs { YIELD(4000 + w) }
	RETURN
}`, Drives: []Drive{gen("int", "@G", "[]int{5, 6}"), gen("int", "@G", "nil")}},

	{Name: "RangeAssignOperands", Props: []string{"C04", "C03"}, Src: `
type @P struct{ val int; idx int }
// '=' form: the iteration values are assigned as in ONE assignment statement - the operands on the left
// (index expressions, pointer indirections) are evaluated before either variable is assigned
GEN(int) @G(src []int) {
	dst := make([]int, len(src)+1)
	var i int
	for i, dst[i] = range src {
		YIELD(i*1000 + dst[0]*10 + dst[1])
	}
	YIELD(i*1000 + dst[0]*10 + dst[1])
	ps := []*@P{{}, {}, {}}
	p := ps[0]
	k := 0
	for k, ps[k].val = range src {
		p = ps[k]
		_ = p
	}
	YIELD(ps[0].val*100 + ps[1].val*10 + ps[2].val)
	rs := make([]rune, 4)
	for i, rs[i] = range "aé" {
	}
	YIELD(i*1000000 + int(rs[0])*1000 + int(rs[1]))
	var key string
	m := map[string]int{"only": 7}
	vals := map[string]int{}
	for key, vals[key] = range m {
	}
	YIELD(len(key)*100 + vals[""]*10 + vals["only"])
	RETURN
}`, Drives: []Drive{gen("int", "@G", "[]int{1, 2, 3}")}},

	{Name: "DeadCodeAfterJump", Props: []string{"C03", "C01"}, Src: `
// statements after an unconditional break / continue are unreachable; the rewriter drops them from rewritten
// blocks - the point excluded by the guard of the scoping theorem (scopeOKL): behaviour and scoping of
// everything reachable must be unaffected, declarations in the dead part included
GEN(int) @G(n int) {
	x := 1
	for i := 0; i < n; i++ {
		x := x + i
		YIELD(x)
		if i == 1 {
			YIELD(-x)
			continue
			x := 100
			YIELD(x)
		}
		if i == 3 {
			break
			x = 200
			y := x
			_ = y
		}
		YIELD(x * 10)
	}
	switch x {
	case 1:
		YIELD(7)
		x := 5
		YIELD(x)
	default:
		YIELD(8)
	}
	YIELD(x)
	RETURN
}`, Drives: []Drive{gen("int", "@G", "5"), gen("int", "@G", "2")}},

	{Name: "ArrayRangeNotAddressable", Props: []string{"C04", "C11"}, Src: `
func @arr() [3]int { return [3]int{1, 2, 3} }
type @board struct{ row [2]int }
func @mk() @board { return @board{row: [2]int{5, 6}} }
GEN(int) @G() {
	for i, v := range @arr() { // an array VALUE that is not addressable: a function result
		YIELD(i*10 + v)
	}
	m := map[string][2]int{"k": {7, 8}}
	for _, v := range m["k"] { // a map element
		YIELD(v)
	}
	for _, v := range @mk().row { // a field of a call result
		YIELD(v)
	}
	ch := make(chan [2]int, 1)
	ch <- [2]int{9, 10}
	for _, v := range <-ch { // a received value
		YIELD(v)
	}
	var x any = [2]int{11, 12}
	for _, v := range x.([2]int) { // a type assertion
		YIELD(v)
	}
	for _, v := range ([2]int{13, 14}) { // a parenthesised literal
		YIELD(v)
	}
	RETURN
}`, Drives: []Drive{gen("int", "@G", "")}},
	{Name: "ArrayRangeLiteral", Props: []string{"C04", "C11"}, Src: `
GEN(int) @G() {
	for _, v := range [2]int{7, 8} { // a composite literal is not addressable either
		YIELD(v)
	}
	RETURN
}`, Drives: []Drive{gen("int", "@G", "")}},
	{Name: "RangeIntegerOtherTypes", Props: []string{"C04", "C11"}, Src: `
type @Level uint8
GEN(int) @G(n int64, m @Level) {
	for i := range n { // i has the type of n
		var x int64 = i
		YIELD(int(x))
	}
	for l := range m {
		var lv @Level = l
		YIELD(100 + int(lv))
	}
	RETURN
}`, Drives: []Drive{gen("int", "@G", "3, 2")}},
	{Name: "RangeNamedCollectionTypes", Props: []string{"C04", "C11"}, Src: `
type @Name string
type @IDs []int
type @Index map[string]int
type @Pipe chan int
GEN(int) @G(s @Name, ids @IDs, ix @Index) {
	for i, r := range s { // range over a value of a named string type
		YIELD(i*1000 + int(r))
	}
	for i, v := range ids {
		YIELD(i*10 + v)
	}
	t := 0
	for k, v := range ix {
		t += len(k) * v
		YIELD(1)
	}
	YIELD(t)
	p := make(@Pipe, 2)
	p <- 5
	p <- 6
	close(p)
	for v := range p {
		YIELD(v)
	}
	RETURN
}`, Drives: []Drive{gen("int", "@G", `"h\xffé", @IDs{7, 8}, @Index{"a": 2, "bcd": 3}`)}},
	{Name: "IteratorTypePositions2", Props: []string{"C06", "C11"}, Src: `
// more positions of the iterator type: an alias, a channel element, a pointer, a function type's result and
// parameter, a generic container instantiated with it, an interface method, a conversion, a type assertion
type @IntIter = ITER(int)
type @Src interface{ Open(n int) ITER(int) }
type @Box[T any] struct{ v T }
type @nat struct{}
GEN(int) @Nat(n int) {
	for i := 0; i < n; i++ { YIELD(i) }
	RETURN
}
func (@nat) Open(n int) ITER(int) { return GENCALL(int, @Nat, n) }
func @sum(it @IntIter) int {
	s := 0
	RANGEITER(v, :=, it) { s += v }
	return s
}
func @apply(f func(ITER(int)) int, mk func(int) ITER(int), n int) int { return f(mk(n)) }
func @F(n int) int {
	var src @Src = @nat{}
	t := @sum(src.Open(n))
	ch := make(chan ITER(int), 1)
	ch <- src.Open(n)
	t += 10 * @sum(<-ch)
	it := src.Open(n)
	p := &it
	t += 100 * @sum(*p)
	t += 1000 * @apply(@sum, src.Open, n)
	b := @Box[ITER(int)]{v: src.Open(n)}
	t += 10000 * @sum(b.v)
	var any1 any = src.Open(n)
	if it2, ok := any1.(ITER(int)); ok {
		t += 100000 * @sum(it2)
	}
	var alias @IntIter = src.Open(2)
	RANGEITER(v, :=, alias) { t += v }
	return t
}`, Drives: []Drive{fn("int", "@F", "3")}},

	{Name: "LoopConditionReceiverWithEffects", Props: []string{"C02", "C07", "C13"}, Src: `
// the condition of a loop calls a method on an iterator obtained through a call WITH EFFECTS: the receiver
// expression is evaluated at every test, in source order - never once, early, as a method value
type @P struct {
	it    ITER(int)
	calls int
}
func (p *@P) lexer() ITER(int) { p.calls++; vm.E("lexer", p.calls); return p.it }
GEN(int) @Nat(n int) {
	for i := 0; i < n; i++ { YIELD(i) }
	RETURN
}
GEN(int) @Parse(p *@P, header bool) {
	vm.E("begin")
	if header { YIELD(-1) }
	for p.lexer().MoveNext() {
		vm.E("body")
		YIELD(p.lexer().Current())
	}
	vm.E("end")
	YIELD(p.calls)
	RETURN
}
GEN(int) @Run(n int, header bool) {
	p := &@P{it: GENCALL(int, @Nat, n)}
	YIELDFROM(GENCALL(int, @Parse, p, header))
	RETURN
}`, Drives: []Drive{gen("int", "@Run", "3, true"), gen("int", "@Run", "2, false")}},

	{Name: "ConsumerLoopBranchesInSwitch", Props: []string{"C06", "C01", "C11"}, Src: `
// consumer loops INSIDE generator functions, with continue / break inside a switch, a type switch and an if:
// the loop is a native loop (its body does not yield), continue continues it, break leaves the switch only
GEN(int) @Nat(n int) {
	for i := 1; i <= n; i++ { vm.E("produce", i); YIELD(i) }
	RETURN
}
GEN(int) @SumEven(n int) {
	s := 0
	RANGEITER(v, :=, GENCALL(int, @Nat, n)) {
		switch {
		case v%2 == 1:
			continue
		case v == 4:
			break
		}
		s += v
	}
	YIELD(s)
	RETURN
}
GEN(int) @Nested(n int) {
	for k := 1; k <= n; k++ {
		s := 0
		RANGEITER(v, :=, GENCALL(int, @Nat, k)) {
			var x any = v
			switch x.(type) {
			case int:
				if v%2 == 1 { continue }
			}
			s += v
		}
		YIELD(s)
	}
	RETURN
}
GEN(int) @Plain(xs []int) {
	t := 0
	for _, v := range xs {
		switch v {
		case 0:
			continue
		case 9:
			break
		default:
			t += v
		}
		t++
	}
	YIELD(t)
	RETURN
}`, Drives: []Drive{gen("int", "@SumEven", "6"), gen("int", "@Nested", "4"), gen("int", "@Plain", "[]int{1, 0, 9, 2}")}},

	{Name: "ReturnOperandPanics", Props: []string{"C18", "C01"}, Src: `
// "return e" in a generator evaluates e (the value is ignored): a panic of that evaluation - an index out of
// range, a nil dereference, a division by zero; no call involved - surfaces from the advance that runs it
type @H struct{ It ITER(int) }
GEN(int) @Pick(its []ITER(int), i int) {
	YIELD(1)
	if i >= 0 { RETURNX(its[i]) }
	YIELD(2)
	RETURN
}
GEN(int) @Deref(h *@H) {
	YIELD(1)
	RETURNX(h.It)
}
GEN(int) @Div(its []ITER(int), d int) {
	YIELD(1)
	for i := 0; i < 2; i++ {
		YIELD(10 + i)
		if i == 1 { RETURNX(its[10/d]) }
	}
	RETURN
}`, Drives: []Drive{gen("int", "@Pick", "nil, 3"), gen("int", "@Pick", "nil, -1"), gen("int", "@Deref", "nil"), gen("int", "@Div", "nil, 0")}},

	{Name: "YieldLocalsNamedLikePredeclared", Props: []string{"C03", "C07", "C02"}, Src: `
// locals that shadow predeclared identifiers (cap, max, len, new, true, nil is not shadowable as a variable of
// another type here) are ordinary variables: a yield of one reads it when the yield is reached
GEN(int) @Caps() {
	cap := 1
	for cap < 10 {
		YIELD(cap)
		cap *= 2
	}
	RETURN
}
GEN(int) @RunningMax(xs []int) {
	max := 0
	for _, x := range xs {
		if x > max {
			max = x
			YIELD(-1)
		}
		YIELD(max)
	}
	RETURN
}
GEN(int) @Len() {
	len := 0
	grow := func() { len += 10 }
	for i := 0; i < 3; i++ {
		YIELD(len)
		grow()
	}
	RETURN
}
GEN(bool) @Flags(n int) {
	true := false
	for i := 0; i < n; i++ {
		YIELD(true)
		true = !true
	}
	RETURN
}`, Drives: []Drive{gen("int", "@Caps", ""), gen("int", "@RunningMax", "[]int{3, 1, 5, 4}"), gen("int", "@Len", ""), gen("bool", "@Flags", "3")}},

	{Name: "NativeRangeKindsWithBranches", Props: []string{"C12", "C04", "C01"}, Src: `
// range statements the lowering has no case for stay native statements when their body does not yield: a
// break / continue in them belongs to them
GEN(int) @FirstNeg(p *[5]int) {
	idx := -1
	for i, v := range p {
		if v < 0 { idx = i; break }
	}
	YIELD(idx)
	YIELD(100)
	RETURN
}
func @sumPos[S ~[]int](s S) ITER(int) { return GENCALL(int, @SumPos[S], s) }
GEN(int) @SumPos[S ~[]int](s S) {
	t := 0
	for _, v := range s {
		if v < 0 { continue }
		t += v
	}
	YIELD(t)
	YIELD(200)
	RETURN
}
GEN(int) @RowLens(rows []*[2]int) {
	for _, r := range rows {
		n := 0
		for _, v := range r {
			if v == 0 { break }
			n++
		}
		YIELD(n)
	}
	RETURN
}`, Drives: []Drive{gen("int", "@FirstNeg", "&[5]int{3, 1, -4, 1, -5}"), gen("int", "@SumPos[[]int]", "[]int{5, -1, 7}"),
		gen("int", "@RowLens", "[]*[2]int{{1, 2}, {3, 0}, {0, 0}}")}},

	{Name: "IteratorVariableReassigned", Props: []string{"C03", "C06", "C07", "C13"}, Src: `
// a VARIABLE of the iterator type is an ordinary variable: closures and loop conditions that call its methods
// see a later assignment to it
GEN(int) @Count(a, b int) {
	for i := a; i <= b; i++ { YIELD(i) }
	RETURN
}
GEN(int) @Chain() {
	cur := GENCALL(int, @Count, 1, 3)
	more := func() bool { return cur.MoveNext() }
	val := func() int { return cur.Current() }
	for more() { YIELD(val()) }
	cur = GENCALL(int, @Count, 10, 12)
	for more() { YIELD(val()) }
	RETURN
}
GEN(int) @Switch() {
	cur := GENCALL(int, @Count, 1, 5)
	first := true
	for cur.MoveNext() {
		YIELD(cur.Current())
		if first {
			first = false
			cur = GENCALL(int, @Count, 10, 11)
		}
	}
	RETURN
}
func @Plain() int {
	cur := GENCALL(int, @Count, 1, 2)
	more := func() bool { return cur.MoveNext() }
	n := 0
	for more() { n++ }
	cur = GENCALL(int, @Count, 1, 3)
	for more() { n += 10 }
	return n
}`, Drives: []Drive{gen("int", "@Chain", ""), gen("int", "@Switch", ""), fn("int", "@Plain", "")}},

	{Name: "ExplicitlyInstantiatedYield", Props: []string{"C01", "C02", "C05", "C11"}, Src: `
// Yield with an explicit type argument (needed where the element type cannot be inferred) in every statement
// position: body, for-init, for-post, switch-init, a case body, a nested block
GEN(int) @Countdown(n int) {
	for i := n; i > 0; YIELDT(int, i) {
		i--
	}
	RETURN
}
GEN(int) @Pairs(n int) {
	for i := 0; i < n; YIELDT(int, -i) {
		i++
		YIELD(i)
	}
	RETURN
}
GEN(float64) @Halves(n int) {
	x := 1.0
	for YIELDT(float64, 1); n > 0; YIELDT(float64, x) {
		x /= 2
		n--
	}
	switch YIELDT(float64, 0); n {
	case 0:
		{
			YIELDT(float64, -1)
		}
	}
	RETURN
}
// the same for YieldFrom: in a statement list, as a for-post, with a delegate that writes the argument too
GEN(int) @Inner(a, n int) {
	vm.E("start", a)
	for i := 0; i < n; i++ { YIELDT(int, a + i) }
	vm.E("end", a)
	RETURN
}
GEN(int) @Outer(n int) {
	YIELD(1)
	YIELDFROMT(int, GENCALL(int, @Inner, 10, n))
	vm.E("after", 10)
	for k := 0; k < 2; YIELDFROMT(int, GENCALL(int, @Inner, 20 + k, 1)) {
		k++
		YIELDFROM(GENCALL(int, @Inner, 30 + k, 1))
	}
	YIELD(2)
	RETURN
}`, Drives: []Drive{gen("int", "@Countdown", "3"), gen("int", "@Pairs", "3"), gen("float64", "@Halves", "3"), gen("int", "@Outer", "3"), gen("int", "@Outer", "0")}},

	{Name: "RangeChanLazy", Props: []string{"C02", "C04", "C10"}, Src: `
// a range over a channel receives one value per iteration, when the iteration starts: never ahead
GEN(int) @Relay(n int) {
	ch := make(chan int, n)
	for i := 0; i < n; i++ { ch <- 10 * (i + 1) }
	close(ch)
	for v := range ch {
		vm.E("received", v, "queued", len(ch))
		YIELD(v)
		vm.E("after", v, "queued", len(ch))
	}
	vm.E("closed")
	RETURN
}
GEN(int) @Two(n int) {
	ch := make(chan int, n)
	for i := 0; i < n; i++ { ch <- i }
	k := 0
	for v := range ch {
		YIELD(v*100 + len(ch))
		k++
		if k == 2 { break }
	}
	YIELD(len(ch))
	RETURN
}`, Drives: []Drive{gen("int", "@Relay", "3"), gen("int", "@Relay", "0"), gen("int", "@Two", "4")}},

	{Name: "IteratorOfIterators", Props: []string{"C06", "C11"}, Src: `
// the element type of a generator is itself the iterator type
GEN(int) @Nums(a, n int) {
	for i := 0; i < n; i++ { vm.E("gen", a, i); YIELD(a + i) }
	RETURN
}
GEN(ITER(int)) @Chunks(n int) {
	for c := 1; c <= n; c++ {
		YIELD(GENCALL(int, @Nums, 10*c, c))
	}
	RETURN
}
// the nested iterator type as a PARAMETER type and as a field type
type @nest struct{ gg ITER(ITER(int)) }
func @flatten(gg ITER(ITER(int))) int {
	n := @nest{gg}
	t := 0
	RANGEITER(g, :=, n.gg) { RANGEITER(v, :=, g) { t += v } }
	return t
}
func @Flat(n int) int {
	t := 0
	RANGEITER(chunk, :=, GENCALL(ITER(int), @Chunks, n)) {
		first := true
		RANGEITER(v, :=, chunk) {
			if first { first = false; continue }
			if v%10 == 2 { break }
			t += v
		}
	}
	t += @flatten(GENCALL(ITER(int), @Chunks, 2))
	held := map[string]ITER(ITER(int)){"k": GENCALL(ITER(int), @Chunks, 2)}
	for held["k"].MoveNext() {
		inner := held["k"].Current()
		for inner.MoveNext() { t += 1000 * inner.Current() }
	}
	return t
}`, Drives: []Drive{fn("int", "@Flat", "3")}},

	{Name: "InterfaceElementTypes", Props: []string{"C14", "C08", "C11"}, Src: `
// generators whose element types are DIFFERENT interface types, in one process, advanced alternately: nothing in
// the runtime may be shared between them (e.g. keyed by the dynamic type of a zero value, nil for every interface)
type @named interface{ Name() string }
type @item struct{ n int }
func (x @item) Name() string { return "item" }
func (x @item) Error() string { return "e" }
GEN(any) @Anys(n int) {
	for i := 0; i < n; i++ { if i%2 == 0 { continue }; YIELDT(any, i) }
	RETURN
}
GEN(error) @Errs(n int) {
	for i := 0; i < n; i++ { if i == 1 { continue }; YIELDT(error, @item{i}) }
	RETURN
}
GEN(@named) @Names(n int) {
	i := 0
	for { if i >= n { break }; YIELDT(@named, @item{i}); i++ }
	RETURN
}
func @Mix(n int) int {
	a, e, m := GENCALL(any, @Anys, n), GENCALL(error, @Errs, n), GENCALL(@named, @Names, n)
	t := 0
	for k := 0; k < n+1; k++ {
		if a.MoveNext() { t += a.Current().(int) }
		if e.MoveNext() { t += 10 * len(e.Current().Error()) }
		if m.MoveNext() { t += 100 * len(m.Current().Name()) }
	}
	return t
}`, Drives: []Drive{fn("int", "@Mix", "4"), fn("int", "@Mix", "1")}},

	{Name: "RangeOperandEffects", Props: []string{"C18", "C04", "C02", "C12"}, Src: `
// the range operand is evaluated exactly once, whatever the form of the range clause and even when no iteration
// variable (or only the key) is used: its effects and its panics are the program's. One operand at a time
// (number bad) panics.
func @p(k, idx, bad int) int { if idx == bad { return -1 }; return k }
func @arr(k int) [3]int { vm.E("arr", k); if k < 0 { panic("arr: negative") }; return [3]int{k, k + 1, k + 2} }
func @sl(k int) []int { vm.E("sl", k); if k < 0 { panic("sl: negative") }; return []int{k, k + 1} }
func @mp(k int) map[int]int { vm.E("mp", k); if k < 0 { panic("mp: negative") }; return map[int]int{k: 1} }
func @str(k int) string { vm.E("str", k); if k < 0 { panic("str: negative") }; return "ab" }
func @num(k int) int { vm.E("num", k); if k < 0 { panic("num: negative") }; return 2 }
func @must(k int) int { vm.E("must", k); if k < 0 { panic("must: negative") }; return k }
GEN(int) @KeyOnly(k, bad int) {
	YIELD(-1)
	for i := range @arr(@p(k, 1, bad)) { YIELD(i) }
	for i := range [2]int{@must(@p(k, 2, bad)), @must(k + 1)} { YIELD(10 + i) }
	for i := range @sl(@p(k, 3, bad)) { YIELD(20 + i) }
	for i := range @str(@p(k, 4, bad)) { YIELD(30 + i) }
	for i := range @num(@p(k, 5, bad)) { YIELD(40 + i) }
	for range @mp(@p(k, 6, bad)) { YIELD(50) }
	YIELD(99)
	RETURN
}
GEN(int) @NoVars(k, bad int) {
	YIELD(-1)
	for range @arr(@p(k, 1, bad)) { YIELD(1) }
	for range [2]int{@must(@p(k, 2, bad)), 0} { YIELD(2) }
	for range @sl(@p(k, 3, bad)) { YIELD(3) }
	for range @str(@p(k, 4, bad)) { YIELD(4) }
	for range @num(@p(k, 5, bad)) { YIELD(5) }
	for i, _ := range @arr(@p(k, 6, bad)) { YIELD(60 + i) }
	var j int
	for j = range @arr(@p(k, 7, bad)) { YIELD(70 + j) }
	for j, _ = range @arr(@p(k, 8, bad)) { YIELD(80 + j) }
	for _, v := range @arr(@p(k, 9, bad)) { YIELD(90 + v) }
	YIELD(99)
	RETURN
}`, Drives: []Drive{gen("int", "@KeyOnly", "1, 0"), gen("int", "@KeyOnly", "1, 1"), gen("int", "@KeyOnly", "1, 2"), gen("int", "@KeyOnly", "1, 3"),
		gen("int", "@KeyOnly", "1, 4"), gen("int", "@KeyOnly", "1, 5"), gen("int", "@KeyOnly", "1, 6"),
		gen("int", "@NoVars", "2, 0"), gen("int", "@NoVars", "2, 1"), gen("int", "@NoVars", "2, 2"), gen("int", "@NoVars", "2, 3"), gen("int", "@NoVars", "2, 4"),
		gen("int", "@NoVars", "2, 5"), gen("int", "@NoVars", "2, 6"), gen("int", "@NoVars", "2, 7"), gen("int", "@NoVars", "2, 8"), gen("int", "@NoVars", "2, 9")}},

	{Name: "EtaNiladicClosures", Props: []string{"C07", "C13"}, Src: `
// closures without parameters can still differ from their callee: in the result type, in variadicity
type @Item struct{ v int }
func @lookup(i int) *@Item { if i%2 == 0 { return nil }; return &@Item{i} }
var @calls int
func @next() *@Item { @calls++; return @lookup(@calls) }
func @sum(xs ...int) int { t := 7; for _, x := range xs { t += x }; return t }
func @repeat[T any](n int, f func() T) []T { var out []T; for i := 0; i < n; i++ { out = append(out, f()) }; return out }
func @F() int {
	@calls = 0
	boxed := @repeat(4, func() any { return @next() }) // a nil *Item boxed in a non-nil interface
	nils := 0
	for _, b := range boxed { if b == nil { nils++ } }
	variadic := func() int { return @sum() }
	same := func() *@Item { return @next() }
	r := nils*100 + variadic()
	if same() != nil { r += 1000 }
	return r
}`, Drives: []Drive{fn("int", "@F", "")}},

	{Name: "RangeBodyRedeclares", Props: []string{"C04", "C03"}, Src: `
// the body of a range statement is its own block: it may redeclare the range variables, and closures made
// before the redeclaration keep seeing the range variables
GEN(string) @Resolve(names []string, alias map[string]string) {
	for i, name := range names {
		label := func() string { return string(rune('0'+i)) + ":" + name }
		name, ok := alias[name]
		if ok { YIELD(name) }
		YIELD(label())
	}
	RETURN
}
GEN(int) @One(xs []int) {
	for k, v := range xs {
		v := v * 10
		k := k + 1
		YIELD(k*1000 + v)
	}
	for k := range xs {
		k := k * 2
		YIELD(k)
	}
	for _, v := range xs {
		f := func() int { return v }
		v := v + 1
		YIELD(f()*100 + v)
	}
	for i, r := range "ab" {
		r := r + 1
		i, j := i+10, i
		YIELD(int(r)*10000 + i*100 + j)
	}
	m := map[string]int{"x": 5}
	for key, val := range m {
		key, val := key+"!", val+1
		YIELD(len(key)*10 + val)
	}
	RETURN
}`, Drives: []Drive{gen("string", "@Resolve", `[]string{"a", "b"}, map[string]string{"a": "A"}`), gen("int", "@One", "[]int{3, 4}")}},

	{Name: "RangeStringBytes", Props: []string{"C04", "C10"}, Src: `
GEN(int) @G(s string) {
	for i, r := range s {
		YIELD(i*10000000 + int(r))
	}
	RETURN
}`, Drives: []Drive{gen("int", "@G", `"héy"`), gen("int", "@G", `"a\xffb\xe2\x82"`), gen("int", "@G", `""`), gen("int", "@G", `"日本"`)}},

	{Name: "RangeMap", Props: []string{"C04"}, Src: `
GEN(int) @G(n int) {
	m := map[int]int{}
	for i := 0; i < n; i++ { m[i+1] = (i + 1) * 10 }
	sum, cnt := 0, 0
	for k, v := range m { // order is unspecified: only order-insensitive results are observed
		sum += k*1000 + v
		cnt++
	}
	YIELD(sum)
	YIELD(cnt)
	var nilm map[string]int
	for range nilm { YIELD(-1) }
	one := map[any]any{nil: nil}
	for k, v := range one {
		if k == nil && v == nil { YIELD(77) }
	}
	RETURN
}`, Drives: []Drive{gen("int", "@G", "0"), gen("int", "@G", "4")}},

	{Name: "RangeMapYieldInside", Props: []string{"C04"}, Src: `
GEN(int) @G() {
	m := map[string]int{"only": 42}
	for k, v := range m {
		YIELD(len(k)*100 + v)
		delete(m, k)
	}
	YIELD(len(m))
	RETURN
}`, Drives: []Drive{gen("int", "@G", "")}},

	{Name: "RangeChan", Props: []string{"C04", "C02"}, Src: `
GEN(int) @G(n int) {
	ch := make(chan int, n)
	for i := 0; i < n; i++ { ch <- i * 3 }
	close(ch)
	for v := range ch {
		YIELD(v)
		if v == 6 { break }
	}
	YIELD(len(ch))
	RETURN
}`, Drives: []Drive{gen("int", "@G", "0"), gen("int", "@G", "5")}},

	{Name: "RangeInt", Props: []string{"C04", "C10"}, Src: `
GEN(int) @G(n int) {
	for i := range n {
		if i == 1 { continue }
		YIELD(i)
	}
	for range n { vm.E("tick") }
	RETURN
}`, Drives: []Drive{gen("int", "@G", "0"), gen("int", "@G", "-2"), gen("int", "@G", "4")}},

	{Name: "RangeExprOnce", Props: []string{"C04", "C02"}, Src: `
func @mk(n int) []int { vm.E("mk", n); return make([]int, n) }
GEN(int) @G(n int) {
	for i := range @mk(n) {
		YIELD(i)
		for j := range @mk(2) { // nested: distinct generated iterator variables
			YIELD(10*i + j + 100)
		}
	}
	for k := range @mk(1) { YIELD(k + 500) } // sequential: no clash either
	RETURN
}`, Drives: []Drive{gen("int", "@G", "2")}},

	{Name: "RangeInClosure", Props: []string{"C04", "C13"}, Src: `
GEN(int) @G(xs []int) {
	total := func() int { // an ordinary closure nested in a generator: its range is lowered as well
		t := 0
		for _, v := range xs {
			if v < 0 { continue }
			if v > 100 { break }
			t += v
		}
		return t
	}
	YIELD(total())
	xs[0] = 50
	YIELD(total())
	RETURN
}`, Drives: []Drive{gen("int", "@G", "[]int{1, -5, 2, 200, 9}")}},

	{Name: "RangeBreakContinue", Props: []string{"C04", "C01"}, Src: `
GEN(int) @G(xs []int) {
	for i, v := range xs {
		if v == 0 { continue }
		if v < 0 { break }
		YIELD(v)
		if i == 3 { RETURN }
	}
	YIELD(-1)
	RETURN
}`, Drives: []Drive{gen("int", "@G", "[]int{1, 0, 2, 3, 4, 5}"), gen("int", "@G", "[]int{1, -1, 2}")}},

	// ---------------- C05: YieldFrom ----------------
	{Name: "YieldFromChain", Props: []string{"C05"}, Src: `
GEN(int) @Count(a, b int) {
	vm.E("count-start", a, b)
	for i := a; i < b; i++ { YIELD(i) }
	vm.E("count-end", a, b)
	RETURN
}
func @arg(a, b int) ITER(int) { vm.E("arg-evaluated"); return GENCALL(int, @Count, a, b) }
GEN(int) @G(n int) {
	vm.E("before")
	YIELDFROM(@arg(0, n))
	vm.E("between")
	YIELDFROM(GENCALL(int, @Count, 0, 0)) // empty delegate
	it := GENCALL(int, @Count, 10, 14)
	it.MoveNext() // partially consumed by hand
	it.MoveNext()
	YIELDFROM(it)
	YIELD(99)
	RETURN
}`, Drives: []Drive{gen("int", "@G", "0"), gen("int", "@G", "3")}},

	{Name: "YieldFromRecursive", Props: []string{"C05", "C14"}, Src: `
type @Tree struct { L, R *@Tree; V int }
func @build(lo, hi int) *@Tree {
	if lo >= hi { return nil }
	mid := (lo + hi) / 2
	return &@Tree{@build(lo, mid), @build(mid+1, hi), mid}
}
GEN(int) @Walk(t *@Tree) {
	if t == nil { RETURN }
	YIELDFROM(GENCALL(int, @Walk, t.L))
	vm.E("visit", t.V)
	YIELD(t.V)
	YIELDFROM(GENCALL(int, @Walk, t.R))
	RETURN
}
GEN(int) @G(n int) {
	YIELDFROM(GENCALL(int, @Walk, @build(0, n)))
	RETURN
}`, Drives: []Drive{gen("int", "@G", "0"), gen("int", "@G", "7")}},

	{Name: "YieldFromPositions", Props: []string{"C05", "C01"}, Src: `
GEN(int) @Count(a, b int) {
	for i := a; i < b; i++ { YIELD(i) }
	RETURN
}
GEN(int) @G(n int) {
	i := 0
	for YIELDFROM(GENCALL(int, @Count, 100, 102)); i < n; YIELDFROM(GENCALL(int, @Count, 200+i, 201+i)) {
		YIELD(i)
		i++
	}
	switch YIELDFROM(GENCALL(int, @Count, 300, 302)); n {
	case 2:
		YIELDFROM(GENCALL(int, @Count, 400, 401))
	default:
		YIELD(-1)
	}
	if n > 1 {
		YIELDFROM(GENCALL(int, @Count, 500, 502))
	} else {
		YIELD(-2)
	}
	RETURN
}`, Drives: []Drive{gen("int", "@G", "0"), gen("int", "@G", "2")}},

	{Name: "YieldFromInPostBodyShapes", Props: []string{"C05", "C01"}, Src: `
// a delegating post statement after every shape of loop body end: a plain statement, a yield, an if without
// else, an if-else and a switch with default whose branches all yield (terminating statements), a nested loop
GEN(int) @Leaf(a, n int) {
	for i := 0; i < n; i++ { YIELD(a + i) }
	RETURN
}
GEN(int) @IfElse(n int) {
	for i := 0; i < n; YIELDFROM(GENCALL(int, @Leaf, 10*i, 2)) {
		i++
		if i%2 == 1 { YIELD(100 + i) } else { YIELD(200 + i) }
	}
	YIELD(-1)
	RETURN
}
GEN(int) @SwitchDefault(n int) {
	for i := 0; i < n; YIELDFROM(GENCALL(int, @Leaf, 10*i, 2)) {
		i++
		switch i {
		case 1, 3:
			YIELD(100 + i)
		default:
			YIELD(200 + i)
		}
	}
	YIELD(-1)
	RETURN
}
GEN(int) @IfOnly(n int) {
	for i := 0; i < n; YIELDFROM(GENCALL(int, @Leaf, 10*i, 2)) {
		i++
		if i%2 == 1 { YIELD(100 + i) }
	}
	YIELD(-1)
	RETURN
}
GEN(int) @Plain(n int) {
	t := 0
	for i := 0; i < n; YIELDFROM(GENCALL(int, @Leaf, 10*i+t, 1)) {
		i++
		t += i
	}
	for i := 0; i < n; YIELDFROM(GENCALL(int, @Leaf, 50*i, 1)) {
		i++
		YIELD(i)
	}
	for i := 0; i < n; YIELD(1000 + i) {
		i++
		if i > 1 { YIELD(300 + i) } else if i == 1 { YIELD(400) } else { YIELD(500) }
	}
	for i := 0; i < n; YIELDFROM(GENCALL(int, @Leaf, 70*i, 1)) {
		i++
		for j := 0; j < 2; j++ { YIELD(600 + j) }
	}
	RETURN
}`, Drives: []Drive{gen("int", "@IfElse", "3"), gen("int", "@SwitchDefault", "3"), gen("int", "@IfOnly", "3"), gen("int", "@Plain", "2")}},

	{Name: "YieldFromInElseIfChains", Props: []string{"C05", "C01"}, Src: `
// a delegation in ONE branch of an if / else-if / else chain, the other branches yield-free - every position
GEN(int) @From(a, b int) {
	for i := a; i < b; i++ { vm.E("step", i); YIELD(i) }
	RETURN
}
GEN(int) @First(k int) {
	skipped := 0
	YIELD(-1)
	if k == 0 {
		YIELDFROM(GENCALL(int, @From, 10, 13))
	} else if k == 1 {
		skipped++
	} else {
		skipped += 2
	}
	YIELD(-2 - skipped)
	RETURN
}
GEN(int) @Middle(k int) {
	skipped := 0
	if k == 0 {
		skipped++
	} else if k == 1 {
		YIELDFROM(GENCALL(int, @From, 20, 22))
	} else if k == 2 {
		skipped += 2
	}
	YIELD(-2 - skipped)
	RETURN
}
GEN(int) @Last(k int) {
	skipped := 0
	if k == 0 {
		skipped++
	} else if k == 1 {
		skipped += 2
	} else {
		YIELD(5)
		YIELDFROM(GENCALL(int, @From, 30, 32))
	}
	YIELD(-2 - skipped)
	RETURN
}`, Drives: []Drive{gen("int", "@First", "0"), gen("int", "@First", "1"), gen("int", "@First", "2"), gen("int", "@Middle", "1"), gen("int", "@Middle", "2"),
		gen("int", "@Last", "0"), gen("int", "@Last", "2")}},

	{Name: "YieldFromInLoopsWithPlainInit", Props: []string{"C05", "C01"}, Src: `
// delegating loops whose init statement is a plain assignment, a call or an inc-dec (not a :=)
type @N struct { Val int; Next *@N }
GEN(int) @Mk(n int) {
	vm.E("mk", n)
	for i := 0; i < n; i++ { YIELD(i) }
	RETURN
}
func @reset(p *int, v int) { *p = v }
GEN(int) @Chain(lo, hi int) {
	var i int
	for i = lo; i < hi; i++ {
		YIELDFROM(GENCALL(int, @Mk, i))
	}
	YIELD(-1)
	for @reset(&i, lo); i < hi; i++ {
		YIELDFROM(GENCALL(int, @Mk, 1))
	}
	for i++; i < hi+3; YIELDFROM(GENCALL(int, @Mk, 1)) {
		i++
	}
	YIELD(i)
	RETURN
}
GEN(int) @List(head *@N) {
	var n *@N
	YIELD(100)
	for n = head; n != nil; n = n.Next {
		YIELDFROM(GENCALL(int, @Mk, n.Val))
	}
	RETURN
}`, Drives: []Drive{gen("int", "@Chain", "2, 4"), gen("int", "@List", "&@N{1, &@N{2, nil}}")}},

	{Name: "YieldFromExhausted", Props: []string{"C05", "C09", "C06"}, Src: `
// an exhausted delegate has no remaining elements: delegating to it again delivers nothing and runs
// nothing of it again (not even the code after its last yield), however it got exhausted
GEN(int) @Down(tag string, n int) {
	for i := n; i != 0; i-- { YIELD(i) }
	vm.E(tag, "done")
	RETURN
}
GEN(int) @ByHand() {
	it := GENCALL(int, @Down, "a", 2)
	for it.MoveNext() { YIELD(10 * it.Current()) }
	YIELDFROM(it)
	YIELD(0)
	YIELDFROM(it)
	YIELD(-100)
	RETURN
}
GEN(int) @Twice() {
	it := GENCALL(int, @Down, "b", 2)
	YIELDFROM(it)
	YIELD(0)
	YIELDFROM(it)
	YIELD(-100)
	RETURN
}
GEN(int) @Shared(it ITER(int), tag int) {
	YIELD(tag)
	YIELDFROM(it)
	YIELD(-tag)
	RETURN
}
GEN(int) @TwoDelegators() {
	it := GENCALL(int, @Down, "c", 3)
	YIELDFROM(GENCALL(int, @Shared, it, 1000))
	YIELDFROM(GENCALL(int, @Shared, it, 2000))
	RETURN
}
func @RangeTwice() int {
	it := GENCALL(int, @Down, "d", 2)
	s := 0
	RANGEITER(v, :=, it) { s += v }
	RANGEITER(v, :=, it) { s += 100 * v }
	if it.MoveNext() { s += 10000 }
	return s
}`, Drives: []Drive{gen("int", "@ByHand", ""), gen("int", "@Twice", ""), gen("int", "@TwoDelegators", ""), fn("int", "@RangeTwice", "")}},

	// ---------------- C06: consumers ----------------
	{Name: "ConsumerRange", Props: []string{"C06"}, Src: `
GEN(int) @Nat(n int) {
	for i := 0; i < n; i++ {
		vm.E("produce", i)
		YIELD(i)
	}
	vm.E("exhausted")
	RETURN
}
func @Sum(n, stop int) int {
	s := 0
	RANGEITER(v, :=, GENCALL(int, @Nat, n)) {
		if v == 1 { continue }
		if v >= stop { break } // no further element may be pulled
		s += v
	}
	return s
}
func @Find(n, want int) int {
	RANGEITER(v, :=, GENCALL(int, @Nat, n)) {
		if v == want { return v * 10 }
	}
	return -1
}
func @Assign(n int) int {
	var v int
	RANGEITER(v, =, GENCALL(int, @Nat, n)) {
		vm.E("got", v)
	}
	return v
}`, Drives: []Drive{fn("int", "@Sum", "6, 4"), fn("int", "@Sum", "0, 4"), fn("int", "@Find", "5, 2"), fn("int", "@Find", "3, 9"), fn("int", "@Assign", "3")}},

	{Name: "ConsumerRangeExprOnce", Props: []string{"C06"}, Src: `
GEN(int) @Log(tag string, n int) {
	for i := 0; i < n; i++ {
		vm.E(tag, i)
		YIELD(i)
	}
	vm.E(tag, "$")
	RETURN
}
type @Holder struct{ src ITER(int) }
// the range expression of a consumer loop is evaluated exactly once, whatever its syntactic form and
// whether or not the loop has a variable: the body may change what the expression denotes
func @Swap() int {
	cur, next := GENCALL(int, @Log, "a", 1), GENCALL(int, @Log, "b", 3)
	n := 0
	RANGEITER(, , cur) {
		n++
		cur, next = next, cur
	}
	_ = next
	return n
}
func @Index() int {
	its := []ITER(int){GENCALL(int, @Log, "a", 2), GENCALL(int, @Log, "b", 2)}
	i, n := 0, 0
	RANGEITER(, , its[i]) {
		n++
		i = 1 - i
	}
	return n
}
func @Field() int {
	f := &@Holder{src: GENCALL(int, @Log, "a", 2)}
	n := 0
	RANGEITER(_, =, f.src) {
		n++
		f.src = GENCALL(int, @Log, "b", 2)
	}
	rest := 0
	for f.src.MoveNext() { rest += 10 + f.src.Current() }
	return n*1000 + rest
}
func @WithVar() int {
	p := GENCALL(int, @Log, "a", 3)
	q := &p
	s := 0
	RANGEITER(v, :=, *q) {
		s += v
		other := GENCALL(int, @Log, "b", 5)
		q = &other
	}
	return s
}`, Drives: []Drive{fn("int", "@Swap", ""), fn("int", "@Index", ""), fn("int", "@Field", ""), fn("int", "@WithVar", "")}},

	{Name: "ConsumerMixed", Props: []string{"C06", "C14"}, Src: `
GEN(int) @Nat(n int) {
	for i := 0; i < n; i++ { YIELD(i) }
	RETURN
}
type @Box struct { It ITER(int); Name string }
func @Mixed(n int) int {
	b := @Box{It: GENCALL(int, @Nat, n), Name: "b"}
	its := map[string]ITER(int){"x": GENCALL(int, @Nat, 3)}
	list := []ITER(int){b.It, its["x"]}
	s := 0
	if list[0].MoveNext() { s += 1000 + list[0].Current() } // pull style
	RANGEITER(v, :=, b.It) { // range style continues on the same iterator
		s += v
		if v == 2 { break }
	}
	if b.It.MoveNext() { s += 100 * b.It.Current() }
	RANGEITER(w, :=, list[1]) {
		RANGEITER(u, :=, GENCALL(int, @Nat, 2)) { s += w*u }
	}
	get := func() ITER(int) { return GENCALL(int, @Nat, 2) }
	RANGEITER(z, :=, get()) { s += z }
	return s
}`, Drives: []Drive{fn("int", "@Mixed", "5"), fn("int", "@Mixed", "1")}},

	{Name: "GenericAndMethodGenerators", Props: []string{"C06", "C11"}, Src: `
type @Stack[T any] struct { xs []T }
GENM(T) (s *@Stack[T]) All() {
	for i := len(s.xs) - 1; i >= 0; i-- { YIELD(s.xs[i]) }
	RETURN
}
func @Map[A, B any](it ITER(A), f func(A) B) ITER(B) { return GENCALL(B, @mapImpl[A, B], it, f) }
GEN(B) @mapImpl[A, B any](it ITER(A), f func(A) B) {
	RANGEITER(a, :=, it) { YIELD(f(a)) }
	RETURN
}
GEN(string) @G(n int) {
	s := &@Stack[int]{}
	for i := 0; i < n; i++ { s.xs = append(s.xs, i) }
	double := GENLIT(int) (it ITER(int)) {
		RANGEITER(v, :=, it) { YIELD(v * 2) }
		RETURN
	}
	YIELDFROM(@Map[int, string](GENCALL(int, double, GENCALL(int, s.All)), func(v int) string { return "v" + string(rune('0'+v)) }))
	RETURN
}`, Drives: []Drive{gen("string", "@G", "0"), gen("string", "@G", "4")}},

	// ---------------- C03: local state and scoping ----------------
	{Name: "ShadowAcrossYields", Props: []string{"C03"}, Src: `
GEN(int) @G(a int) {
	x := a
	{
		x := x * 10 // shadows
		YIELD(x)
		x++
		YIELD(x)
	}
	YIELD(x)
	if x := x + 100; x > 0 {
		YIELD(x)
		x := x + 1
		YIELD(x)
	} else {
		YIELD(-x)
	}
	switch x := x + 7; x > 0 {
	case true:
		x := x * 2
		YIELD(x)
	}
	for x := 0; x < 2; x++ {
		x := x + 50
		YIELD(x)
	}
	YIELD(x)
	RETURN
}`, Drives: []Drive{gen("int", "@G", "1"), gen("int", "@G", "-200")}},

	{Name: "NestedSwitchInitShadow", Props: []string{"C03"}, Src: `
func @lookup(k int) (int, bool) { return k * 7, k > 0 }
GEN(string) @G(a, b int) {
	tag := "outer"
	n := 100
	peek := func() int { return n }
	switch a {
	case 1:
		switch tag := b; tag { // the initialiser shadows: its own scope
		case 1:
			YIELD("one")
		default:
			YIELD("other")
		}
		YIELD(tag) // the outer tag
		switch n, ok := @lookup(b); ok { // declares a NEW n: the closure keeps seeing the outer one
		case true:
			YIELD(string(rune('a' + n%26)))
		}
		YIELD(string(rune('A' + peek()%26)))
	default:
		YIELD("none")
	}
	YIELD(tag)
	RETURN
}`, Drives: []Drive{gen("string", "@G", "1, 1"), gen("string", "@G", "1, 5"), gen("string", "@G", "2, 0")}},

	{Name: "ClosuresAcrossYields", Props: []string{"C03", "C13"}, Src: `
GEN(int) @G(n int) {
	cnt := 0
	inc := func() int { cnt++; return cnt } // created before the yields
	peek := func() int { return cnt }
	YIELD(inc())
	cnt += 10 // update after the closure was created: the closure must see it
	YIELD(peek())
	for i := 0; i < n; i++ {
		YIELD(inc() * 100)
	}
	YIELD(cnt) // updates made through the closure are seen here
	var fs []func() int
	for j := 0; j < 2; j++ {
		j := j
		fs = append(fs, func() int { return j + cnt })
		YIELD(j)
	}
	for _, f := range fs { YIELD(f()) }
	RETURN
}`, Drives: []Drive{gen("int", "@G", "0"), gen("int", "@G", "2")}},

	{Name: "TypeSwitchBranches", Props: []string{"C01", "C12", "C11"}, Src: `
// break / continue inside the clauses of a TYPE switch with yields: break leaves the switch only, continue goes
// to the enclosing loop; with and without a loop, nested in an expression switch, with an init statement
GEN(int) @InLoop(xs []any) {
	for i := 0; i < len(xs); i++ {
		switch v := xs[i].(type) {
		case int:
			if v < 0 { break }
			YIELD(v)
		case string:
			if v == "" { continue }
			YIELD(len(v))
		case nil:
			break
		}
		YIELD(-1)
	}
	YIELD(-2)
	RETURN
}
GEN(int) @NoLoop(x any) {
	YIELD(0)
	switch v := x.(type) {
	case int:
		if v < 0 { break }
		YIELD(v)
	default:
		YIELD(7)
	}
	YIELD(-2)
	RETURN
}
GEN(int) @Nested(xs []any, mode int) {
	for _, x := range xs {
		switch mode {
		case 1:
			switch w := x; v := w.(type) {
			case int:
				if v > 5 { break } // (a break AFTER a yield in a yielding clause is finding D7)
				YIELD(v)
				YIELD(v + 100)
			case bool:
				if v { continue }
				YIELD(1)
			}
			YIELD(-1)
		default:
			switch x.(type) {
			case int:
				break
			}
			YIELD(-3)
		}
	}
	YIELD(-2)
	RETURN
}`, Drives: []Drive{gen("int", "@InLoop", `[]any{1, -5, "ab", "", nil, 7}`), gen("int", "@InLoop", `[]any{-1}`), gen("int", "@NoLoop", "-1"), gen("int", "@NoLoop", "3"), gen("int", "@NoLoop", `"s"`),
		gen("int", "@Nested", `[]any{1, 9, true, false}, 1`), gen("int", "@Nested", `[]any{1, "x"}, 2`)}},

	{Name: "RangeLoopVariablesAssigned", Props: []string{"C03", "C04", "C01"}, Src: `
// the body may assign to the iteration variables: they are copies, the iteration goes on from the hidden state;
// closures created in the body see the variable of THEIR iteration (a range clause with := declares fresh
// variables per iteration in every Go version)
GEN(int) @Ints(n int) {
	for i := range n { i *= 2; YIELD(i) }
	var fs []func() int
	for i := range n { fs = append(fs, func() int { return i }); YIELD(i); i += 10 }
	for _, f := range fs { YIELD(f()) }
	RETURN
}
GEN(int) @Slices(xs []int) {
	for i, v := range xs { i += 100; v *= 2; YIELD(i + v) }
	var fs []func() int
	for i, v := range xs { fs = append(fs, func() int { return 10*i + v }); YIELD(v); v = -1; i = -1 }
	for _, f := range fs { YIELD(f()) }
	RETURN
}
GEN(int) @Strings(s string) {
	for i, r := range s { i *= 3; r++; YIELD(i + int(r)) }
	var fs []func() int
	for i := range s { fs = append(fs, func() int { return i }); YIELD(i); i = 99 }
	for _, f := range fs { YIELD(f()) }
	RETURN
}`, Drives: []Drive{gen("int", "@Ints", "6"), gen("int", "@Ints", "0"), gen("int", "@Slices", "[]int{5, 6, 7}"), gen("int", "@Strings", `"aé!"`)}},

	{Name: "LoopVariableWrittenInBody", Props: []string{"C03", "C01"}, Src: `
// the body of a three-clause loop writes the loop variable - directly, and through a closure made in the same
// iteration - and the post statement and the condition see it (the closures are only called in the iteration
// that made them, so the result is the same with one variable per loop and one per iteration)
GEN(int) @Skip(n int) {
	for i := 0; i < n; i++ {
		cur := func() int { return i }
		YIELD(cur())
		if i%3 == 1 { i += 2 }
	}
	RETURN
}
GEN(int) @Bump(n int) {
	for i := 0; i < n; i++ {
		bump := func() { i++ }
		YIELD(i)
		bump()
		YIELD(i * 10)
	}
	RETURN
}
GEN(int) @Down(n int) {
	for i, j := 0, n; i < j; i, j = i+1, j-1 {
		shrink := func() { j-- }
		YIELD(10*i + j)
		if i == 1 { shrink() }
	}
	RETURN
}`, Drives: []Drive{gen("int", "@Skip", "8"), gen("int", "@Bump", "4"), gen("int", "@Down", "6")}},

	{Name: "SwitchInitYieldsTrivialCases", Props: []string{"C05", "C01", "C11"}, Src: `
// the only yields of a switch statement are in its initialiser (a Yield, a YieldFrom): every clause is yield-free
GEN(int) @Two(a int) { YIELD(a); YIELD(a + 1); RETURN }
GEN(int) @A(tag int) {
	t := 0
	switch YIELD(5); tag {
	case 1:
		t = 10
	default:
		t = 20
	}
	YIELD(t)
	RETURN
}
GEN(int) @B(tag int) {
	t := 0
	switch YIELDFROM(GENCALL(int, @Two, 1)); tag {
	case 1:
		t = 10
	default:
		t = 20
	}
	YIELD(t)
	RETURN
}
GEN(int) @C(x any) {
	t := 0
	switch YIELDFROM(GENCALL(int, @Two, 7)); x.(type) {
	case int:
		t = 1
	}
	YIELD(t)
	RETURN
}`, Drives: []Drive{gen("int", "@A", "1"), gen("int", "@A", "2"), gen("int", "@B", "1"), gen("int", "@B", "2"), gen("int", "@C", "3")}},

	{Name: "IfInitialiserShadows", Props: []string{"C03", "C01", "C05"}, Src: `
// an if statement WITH an initialiser and a yielding body, without else / with else / as else-if: the initialiser
// declares a name that shadows an outer one, so losing it would still build
type @node struct { v int; next *@node }
func @List(k int) *@node { var l *@node; for ; k > 0; k-- { l = &@node{k, l} }; return l }
GEN(int) @Walk(n *@node) {
	YIELD(n.v)
	if n := n.next; n != nil { YIELDFROM(GENCALL(int, @Walk, n)) }
	RETURN
}
GEN(int) @G(k int) {
	x := 100
	if x := k * 2; x > 2 { YIELD(x) }
	if x := k + 1; x > 100 { YIELD(-1) } else { YIELD(x) }
	if k < 0 { YIELD(-2) } else if x := k * 3; x > 0 { YIELD(x) }
	YIELD(x)
	RETURN
}`, Drives: []Drive{gen("int", "@Walk", "@List(3)"), gen("int", "@G", "2"), gen("int", "@G", "1")}},

	{Name: "YieldExplicitTypeConverts", Props: []string{"C01", "C11", "C02"}, Src: `
// the explicit type argument of Yield gives an untyped constant (or nil) its type
type @color int
func (c @color) String() string { if c == 1 { return "green" }; return "other" }
type @stringer interface{ String() string }
GEN(any) @Anys() {
	YIELDT(float64, 1)
	YIELDT(int64, 2)
	YIELDT(*int, nil)
	YIELDT(any, 3)
	RETURN
}
GEN(@stringer) @Named() {
	YIELDT(@color, 1)
	YIELDT(@stringer, @color(2))
	RETURN
}
func @Kinds() string {
	out := ""
	RANGEITER(v, :=, GENCALL(any, @Anys)) { out += vm.TypeName(v) + " " }
	RANGEITER(s, :=, GENCALL(@stringer, @Named)) { out += s.String() + " " }
	return out
}`, Drives: []Drive{fn("string", "@Kinds", "")}},

	{Name: "DeferInNativeRange", Props: []string{"C12"}, MayReject: true, Src: `
// a defer inside a range statement that the rewriter leaves native (no yield in it) is a defer of the generator
func @sum[S ~[]int](xs S) int { t := 0; for _, x := range xs { t += x }; return t }
GEN(int) @G(xs []int) {
	YIELD(1)
	for _, x := range xs { defer vm.E("deferred", x) }
	YIELD(2)
	RETURN
}`, Drives: []Drive{gen("int", "@G", "[]int{7, 8}")}},

	{Name: "DeferInNativeRangePointerToArray", Props: []string{"C12"}, MayReject: true, Src: `
GEN(int) @G(p *[2]int) {
	YIELD(1)
	for _, x := range p { defer vm.E("deferred", x) }
	YIELD(2)
	RETURN
}`, Drives: []Drive{gen("int", "@G", "&[2]int{7, 8}")}},

	{Name: "UserFunctionNamedPanic", Props: []string{"C11", "C01"}, Src: `
// a function of the package named like a builtin that terminates: it returns normally
var @problems []string
func panic(v any) { @problems = append(@problems, vm.TypeName(v)) }
GEN(int) @Digits(s string) {
	for _, c := range s {
		if '0' <= c && c <= '9' { YIELD(int(c - '0')) } else { panic(c) }
	}
	switch {
	case len(s) > 3:
		panic("long")
	default:
		panic(1)
	}
	RETURN
}
func @F(s string) int {
	@problems = nil
	t := 0
	RANGEITER(d, :=, GENCALL(int, @Digits, s)) { t += d }
	return 100*t + len(@problems)
}`, Drives: []Drive{fn("int", "@F", `"1a2b3"`), fn("int", "@F", `"7"`)}},

	{Name: "MapNamedKeyAndElementTypes", Props: []string{"C04", "C10"}, Src: `
// maps whose key / element types are DEFINED types over string, int, float64, bool
type @color string
type @id int
type @ratio float64
type @flag bool
GEN(int) @G() {
	for k, v := range map[@color]int{"red": 1, "green": 2} { YIELD(len(k) * v) }
	for k, v := range map[string]@id{"ann": 7, "bob": 9} { YIELD(len(k) * int(v)) }
	for k, v := range map[@id]@ratio{3: 1.5} { YIELD(int(k) * int(v*2)) }
	for k := range map[@flag]@color{true: "x"} { if k { YIELD(1) } }
	RETURN
}
func @Sum() int { t := 0; RANGEITER(v, :=, GENCALL(int, @G)) { t += v }; return t }`, Drives: []Drive{fn("int", "@Sum", "")}},

	{Name: "ConsumerLoopVariableCopies", Props: []string{"C06", "C03"}, Src: `
// copies of the loop variable made in NESTED blocks of a consumer loop (if, switch, for, bare block) are variables
// of their own: writing to them does not touch the loop variable
GEN(int) @Nums(n int) { for i := 1; i <= n; i++ { YIELD(i) }; RETURN }
func @F(n int) int {
	t := 0
	RANGEITER(v, :=, GENCALL(int, @Nums, n)) {
		if v%2 == 1 { v := v; v *= 10; t += v }
		switch { case v == 2: v := v; v += 100; t += v }
		for k := 0; k < 1; k++ { v := v; v = -v; t += v }
		{ v := v; v++; t += v }
		t = 2*t + v
	}
	return t
}`, Drives: []Drive{fn("int", "@F", "3"), fn("int", "@F", "0")}},

	{Name: "ConsumerFirstMatchContinueThenBreak", Props: []string{"C06", "C01"}, Src: `
// skip-until-first-match: the consumer loop's body ends in an unconditional break, and an earlier 'continue'
// (directly, or inside a switch) pulls the NEXT element of the same iterator - inside an enclosing native loop
// to which a mis-bound continue would go instead
GEN(int) @Nums(xs []int) { for _, x := range xs { vm.E("p"); YIELD(x) }; RETURN }
func @First(gs [][]int) int {
	t := 0
	for _, g := range gs {
		found := -1
		RANGEITER(v, :=, GENCALL(int, @Nums, g)) {
			if v <= 0 { continue }
			found = v
			break
		}
		t = 10*t + found + 1
	}
	return t
}
func @FirstEven(gs [][]int) int {
	t := 0
	for _, g := range gs {
		found := -1
		RANGEITER(v, :=, GENCALL(int, @Nums, g)) {
			switch { case v%2 == 1: continue }
			found = v
			break
		}
		t = 10*t + found + 1
	}
	return t
}`, Drives: []Drive{fn("int", "@First", "[][]int{{-1, 0, 7, 8}, {3, 4}, {-5}}"), fn("int", "@FirstEven", "[][]int{{1, 3, 4, 5}, {7}, {2}}"), fn("int", "@First", "nil")}},

	{Name: "YieldFromPackageVarReassigned", Props: []string{"C05", "C02"}, Src: `
// the delegate is evaluated ONCE, when the YieldFrom statement is reached: re-assigning the package-level
// variable it was read from while the delegation is suspended at a yield changes nothing
var @src ITER(int)
GEN(int) @Count(a, b int) { for i := a; i < b; i++ { YIELD(i) }; RETURN }
GEN(int) @Deleg() { YIELDFROM(@src); YIELD(-1); RETURN }
func @F(take int) int {
	@src = GENCALL(int, @Count, 0, 4)
	g := GENCALL(int, @Deleg)
	t := 0
	for k := 0; k < take && g.MoveNext(); k++ { t = 10*t + g.Current() + 2 }
	@src = GENCALL(int, @Count, 5, 7) // meant for the next generator
	for g.MoveNext() { t = 10*t + g.Current() + 2 }
	return t
}`, Drives: []Drive{fn("int", "@F", "2"), fn("int", "@F", "0"), fn("int", "@F", "1")}},

	{Name: "IterReturningClosureInGenerator", Props: []string{"C13", "C11", "C05"}, Src: `
// an ordinary closure inside a generator body that RETURNS an iterator obtained elsewhere is not a generator:
// its return statements keep their operands
GEN(int) @Count(n int) { for i := 0; i < n; i++ { YIELD(i) }; RETURN }
GEN(int) @Outer(big bool) {
	pick := func() ITER(int) {
		if big { return GENCALL(int, @Count, 3) }
		return GENCALL(int, @Count, 1)
	}
	YIELD(100)
	YIELDFROM(pick())
	var same func(it ITER(int)) ITER(int) = func(it ITER(int)) ITER(int) { return it }
	RANGEITER(v, :=, same(pick())) { YIELD(10 + v) }
	RETURN
}`, Drives: []Drive{gen("int", "@Outer", "true"), gen("int", "@Outer", "false")}},

	{Name: "RangeLoopsOnOneSourceLine", Props: []string{"C15", "C11", "C04"}, Src: `
// valid Go need not be gofmt-ed: several range loops (each needs a helper variable of its own) start on one line
GEN(int) @G(xs, ys []int) {
	a, b, c := 0, 0, 0
	for _, x := range xs { a += x }; for _, w := range ys { b += w }; for i := range xs { c += i }
	YIELD(a); YIELD(b); YIELD(c)
	for _, x := range xs { YIELD(x) }; for _, w := range ys { YIELD(w) }
	RETURN
}`, Drives: []Drive{gen("int", "@G", "[]int{1, 2, 3}, []int{10, 20}")}},

	{Name: "RangeAssignFormReadAfterLoop", Props: []string{"C03", "C04", "C01"}, Src: `
// the '=' form assigns to variables declared OUTSIDE the loop even when the body never mentions them: the code
// after the loop and closures made before it see the last element
GEN(int) @G(xs []string) {
	i, s := -1, "none"
	seen := func() int { return 100*i + len(s) }
	for i, s = range xs { YIELD(7) }
	YIELD(i)
	YIELD(len(s))
	YIELD(seen())
	k := -5
	for k = range len(xs) { vm.E("tick") }
	YIELD(k)
	// ... and even when the body is empty
	j, t := -1, "none"
	for j, t = range xs {}
	YIELD(10*j + len(t))
	r := 'x'
	for j, r = range "héé" {}
	YIELD(10*j + int(r)%7)
	RETURN
}`, Drives: []Drive{gen("int", "@G", `[]string{"a", "bb", "ccc"}`), gen("int", "@G", "nil")}},

	{Name: "TypeSwitchScopes", Props: []string{"C03", "C01"}, Src: `
GEN(int) @G(vs []any) {
	for _, v := range vs {
		switch x := v.(type) {
		case int:
			YIELD(x)
			x += 1
			YIELD(x)
		case string:
			YIELD(len(x))
		case nil:
			YIELD(-1)
		default:
			_ = x
			YIELD(-2)
		}
	}
	RETURN
}`, Drives: []Drive{gen("int", "@G", `[]any{1, "abc", nil, 2.5}`)}},

	{Name: "LongLivedLocals", Props: []string{"C03", "C02"}, Src: `
GEN(int) @G(n int) {
	a, b := 0, 1
	hist := []int{}
	for i := 0; i < n; i++ {
		YIELD(a)
		a, b = b, a+b
		hist = append(hist, a)
	}
	s := 0
	for _, h := range hist { s += h }
	YIELD(s)
	RETURN
}`, Drives: []Drive{gen("int", "@G", "8")}},

	// ---------------- C12: unsupported constructs ----------------
	{Name: "GotoInGenerator", Props: []string{"C12"}, MayReject: true, Src: `
GEN(int) @G(n int) {
	i := 0
loop:
	if i < n {
		YIELD(i)
		i++
		goto loop
	}
	RETURN
}`, Drives: []Drive{gen("int", "@G", "3")}},

	{Name: "LabelledBreak", Props: []string{"C12"}, MayReject: true, Src: `
GEN(int) @G(n int) {
outer:
	for i := 0; i < n; i++ {
		for j := 0; j < n; j++ {
			if j == 2 { continue outer }
			if i == 2 { break outer }
			YIELD(i*10 + j)
		}
	}
	RETURN
}`, Drives: []Drive{gen("int", "@G", "4")}},

	{Name: "DeferInGenerator", Props: []string{"C12"}, MayReject: true, Src: `
GEN(int) @G(n int) {
	defer vm.E("deferred")
	YIELD(n)
	RETURN
}`, Drives: []Drive{gen("int", "@G", "3")}},

	{Name: "SelectInGenerator", Props: []string{"C12"}, MayReject: true, Src: `
GEN(int) @G(n int) {
	ch := make(chan int, 1)
	ch <- n
	select {
	case v := <-ch:
		YIELD(v)
	default:
		YIELD(-1)
	}
	RETURN
}`, Drives: []Drive{gen("int", "@G", "3")}},

	{Name: "FallthroughFromYieldingCase", Props: []string{"C12"}, MayReject: true, Src: `
GEN(int) @G(n int) {
	switch n {
	case 1:
		YIELD(1)
		fallthrough
	case 2:
		YIELD(2)
	}
	RETURN
}`, Drives: []Drive{gen("int", "@G", "1"), gen("int", "@G", "2")}},

	{Name: "DeferInYieldFreeLoop", Props: []string{"C12"}, MayReject: true, Src: `
GEN(int) @G(n int) {
	for i := 0; i < n; i++ {
		defer vm.E("cleanup", i)
	}
	YIELD(1)
	vm.E("between")
	YIELD(2)
	RETURN
}`, Drives: []Drive{gen("int", "@G", "2")}},

	{Name: "SelectBreakInBlock", Props: []string{"C12"}, MayReject: true, Src: `
GEN(int) @G(n int) {
	ch := make(chan int, 8)
	for i := 0; i < n; i++ {
		ch <- i
		{
			select {
			case v := <-ch:
				if v >= 0 { break } // leaves the select, not the loop
				vm.E("unreachable")
			default:
			}
		}
		YIELD(i)
	}
	RETURN
}`, Drives: []Drive{gen("int", "@G", "3")}},

	{Name: "LabelInYieldFreeBlock", Props: []string{"C12"}, MayReject: true, Src: `
GEN(int) @G(n int) {
	s := 0
	{
	outer:
		for a := 0; a < n; a++ {
			for b := 0; b < n; b++ {
				if b == 1 { continue outer }
				s += 10*a + b
			}
		}
	}
	YIELD(s)
	RETURN
}`, Drives: []Drive{gen("int", "@G", "3")}},

	{Name: "UnsupportedInsideClosure", Props: []string{"C12", "C13"}, Src: `
GEN(int) @G(n int) {
	f := func(k int) (r int) { // none of this is generator code: it must be accepted and kept as it is
		defer func() { r += 1000 }()
		i := k
	outer:
		for a := 0; a < 3; a++ {
			for b := 0; b < 3; b++ {
				if b == 1 { continue outer }
				if a == 2 { break outer }
				i += 10
			}
		}
		ch := make(chan int, 1)
		ch <- i
		select {
		case v := <-ch:
			return v
		}
	}
	YIELD(f(n))
	YIELD(f(0))
	RETURN
}`, Drives: []Drive{gen("int", "@G", "3")}},

	// ---------------- C13: bystanders ----------------
	{Name: "Bystanders", Props: []string{"C13"}, Src: `
const @K = 7
var @table = func() map[string]int { return map[string]int{"a": 1} }()
type @Acc struct{ n int }
func (a *@Acc) Add(d int) int { a.n += d; return a.n }
func @twice(f func(int) int, x int) int { return f(f(x)) }
func @helper(x int) int { return x*@K + @table["a"] }
func @Plain(x int) int {
	a := &@Acc{}
	add := func(d int) int { return a.Add(d) + 0 } // not an eta shape
	g := func(y int) int { return @helper(y) }   // eta shape over a package-level function: harmless
	return @twice(add, x) + g(x) + len(@table)
}
GEN(int) @G(n int) {
	YIELD(@Plain(n))
	RETURN
}`, Drives: []Drive{fn("int", "@Plain", "3"), gen("int", "@G", "2")}},

	// ---------------- C02 / C07: yielded expressions of every syntactic shape, at the head of every kind of block ----------------
	// (the optimiser elides the Delay around a Bind whose value is a literal: nothing else may be evaluated when the
	//  combinator is constructed; E logs show exactly when each operand runs relative to START / M markers)
	{Name: "YieldExprShapes", Props: []string{"C02", "C07", "C01"}, Src: `
type @Ev struct {
	ID   int
	Name string
}
func @id(tag string, n int) int { vm.E("eval", tag, n); return n }
GEN(any) @Head(n int) {
	YIELD(@Ev{ID: @id("head", n), Name: "h"})
	vm.E("after-head")
	YIELD([]int{@id("slice", n + 1)})
	YIELD(map[string]int{"k": @id("map", n + 2)})
	YIELD(&@Ev{@id("ptr", n + 3), "p"} != nil)
	YIELD([2]int{@id("arr", n + 4), 1})
	RETURN
}
GEN(any) @Loop(n int) {
	for i := 0; i < n; i++ {
		YIELD(@Ev{ID: @id("loophead", i), Name: "it"})
		vm.E("after", i)
	}
	YIELD(@Ev{ID: @id("afterloop", n), Name: "sum"})
	if n > 1 {
		YIELD(struct{ A, B int }{@id("anon", 1), 2})
	} else {
		YIELD([]any{@id("else", 2), nil})
	}
	switch n > 0 {
	case true:
		YIELD(@Ev{@id("case", 3), "c"})
	default:
		YIELD(@Ev{@id("default", 4), "d"})
	}
	RETURN
}
GEN(int) @Ops(n int) {
	YIELD(-@id("neg", n))
	YIELD(@id("lhs", n) + @id("rhs", 1))
	YIELD([]int{7, 8, 9}[@id("idx", n % 3)])
	YIELD(int(int64(@id("conv", n))))
	YIELD((@id("paren", n)))
	YIELD(func() int { return @id("lit", n) }())
	YIELD(len([]int{@id("len", n)}))
	YIELD(@Ev{ID: @id("sel", n)}.ID)
	YIELD(*(&[]int{@id("star", n)}[0]))
	YIELD(any(@id("assert", n)).(int))
	YIELD(1)
	YIELD(len("abc"))
	RETURN
}
var @next = 100
var @level = 1
const @K0 = 7
var @nilp *int
GEN(int) @Globals(n int) {
	for i := 0; i < n; i++ {
		YIELD(@next) // a bare package-level variable is read when the yield is reached, every time
		@next++
	}
	for {
		YIELD(@level)
		@level *= 2
		if @level > 8 { break }
	}
	YIELD(@K0)
	@next, @level = 100, 1
	RETURN
}
GEN(any) @Sentinels(n int) {
	YIELD(nil)
	YIELD(true)
	YIELD(@nilp)
	x := n
	YIELD(x) // a local
	RETURN
}
GEN([]int) @Rows(n int) {
	for i := 0; i < n; i++ {
		YIELD([]int{0, 0}) // a fresh slice every time the yield is reached
	}
	RETURN
}
GEN(map[string]int) @Maps(n int) {
	for i := 0; i < n; i++ {
		YIELD(map[string]int{"k": 1})
	}
	RETURN
}
GEN(int) @Fresh(n int) {
	RANGEITER(row, :=, GENCALL([]int, @Rows, n)) {
		YIELD(row[0]) // 0 every time: nobody has touched this slice yet
		row[0] = 7
	}
	RANGEITER(m, :=, GENCALL(map[string]int, @Maps, n)) {
		YIELD(len(m))
		m["extra"] = 1
	}
	RETURN
}
GEN(string) @Strs(n int) {
	YIELD("lit")
	YIELD("a" + "b")
	YIELD(string(rune(@id("rune", 65 + n))))
	YIELD([]string{"p", "q"}[@id("sidx", n % 2)])
	RETURN
}`, Drives: []Drive{gen("any", "@Head", "1"), gen("any", "@Loop", "0"), gen("any", "@Loop", "1"), gen("any", "@Loop", "3"),
		gen("int", "@Ops", "2"), gen("string", "@Strs", "1"), gen("int", "@Globals", "3"), gen("int", "@Globals", "0"), gen("any", "@Sentinels", "4"), gen("int", "@Fresh", "3")}},

	// ---------------- C18 / C02: panics and effects at precise points ----------------
	{Name: "PanicPositions", Props: []string{"C18", "C02"}, Src: `
GEN(int) @Inner(n int) {
	YIELD(n)
	if n == 2 { panic("inner-boom") }
	YIELD(n + 1)
	RETURN
}
GEN(int) @G(n int) {
	vm.E("start")
	YIELD(0)
	for i := 0; i < 3; i++ {
		vm.E("iter", i)
		if i == n { panic("loop-boom") }
		YIELD(i)
	}
	switch n {
	case 7:
		YIELD(70)
		panic("case-boom")
	}
	YIELDFROM(GENCALL(int, @Inner, n-7))
	RETURN
}`, Drives: []Drive{gen("int", "@G", "1"), gen("int", "@G", "7"), gen("int", "@G", "9"), gen("int", "@G", "5")}},

	// ---------------- repaired findings (D9, D10e, D12, D13): the witnesses now have to agree or be rejected ----------------
	{Name: "EtaMethodValue", Props: []string{"C13", "C07"}, Src: `
type @S struct{ v int }
func (s *@S) Get() int { return s.v }
func @F() int {
	s := &@S{1}
	get := func() int { return s.Get() } // must call through the CURRENT s
	s = &@S{2}
	return get()
}
GEN(int) @G() { YIELD(@F()); RETURN }`, Drives: []Drive{fn("int", "@F", "")}},

	{Name: "EtaFuncVariable", Props: []string{"C13", "C07"}, Src: `
func @F() int {
	h := func(x int) int { return x }
	call := func(x int) int { return h(x) } // h is a variable: evaluated at call time
	h = func(x int) int { return x * 10 }
	return call(2)
}
GEN(int) @G() { YIELD(@F()); RETURN }`, Drives: []Drive{fn("int", "@F", "")}},

	{Name: "EtaFuncVariableWrittenElsewhere", Props: []string{"C13", "C07"}, Src: `
// the function variable is written in ANOTHER function than the one the closure is created in: an outer
// function, a sibling closure, after a yield (another thunk of the generated code), through a parameter
func @inc(x int) int { return x + 1 }
func @dbl(x int) int { return 2 * x }
func @Plain() int {
	step := @inc
	var call func(int) int
	setup := func() { call = func(x int) int { return step(x) } }
	setup()
	a := call(10)
	step = @dbl
	return 100*a + call(10)
}
func @Sibling() int {
	step := @inc
	call := func(x int) int { return step(x) }
	swap := func() { step = @dbl }
	a := call(10)
	swap()
	return 100*a + call(10)
}
func @Param(step func(int) int) int {
	call := func(x int) int { return step(x) }
	a := call(10)
	func() { step = @dbl }()
	return 100*a + call(10)
}
GEN(int) @Gen(n int) {
	op := @inc
	var fs []func(int) int
	for i := 0; i < n; i++ {
		fs = append(fs, func(x int) int { return op(x) })
		YIELD(fs[i](10))
	}
	op = @dbl
	for _, f := range fs { YIELD(f(10)) }
	RETURN
}`, Drives: []Drive{fn("int", "@Plain", ""), fn("int", "@Sibling", ""), fn("int", "@Param", "@inc"), gen("int", "@Gen", "2")}},

	{Name: "ParenthesisedYieldStatement", Props: []string{"C12", "C01", "C02"}, Src: `
// a call statement may be parenthesised (Go spec, Expression statements)
GEN(int) @G(n int) {
	YIELD(1)
	(YIELD(2))
	for i := 0; i < n; i++ { ((YIELD(10 + i))) }
	YIELD(3)
	RETURN
}`, Drives: []Drive{gen("int", "@G", "2"), gen("int", "@G", "0")}},

	{Name: "EtaVariadicForwardedAsOne", Props: []string{"C07", "C13"}, Src: `
// a variadic closure that passes its parameter slice as ONE argument is not its callee, although the types agree
func @count(xs ...any) int { return len(xs) }
func @F() int {
	one := func(xs ...any) int { return @count(xs) }
	all := func(xs ...any) int { return @count(xs...) }
	return 100*one(1, 2, 3) + 10*all(1, 2, 3) + one()
}
GEN(int) @G() { YIELD(@F()); RETURN }`, Drives: []Drive{fn("int", "@F", ""), gen("int", "@G", "")}},

	{Name: "EtaPartiallyInstantiatedGeneric", Props: []string{"C07", "C13", "C11"}, Src: `
// the callee is a generic function instantiated only in part: the rest is inferred from the call's arguments
func @conv[A, B any](b B) A { var a A; _ = b; return a }
func @pair[A, B any](a A, b B) int { return 2 }
func @F() int {
	h := func(s string) int { return @conv[int](s) }
	k := func(a int, b string) int { return @pair[int](a, b) }
	full := func(s string) int { return @conv[int, string](s) }
	return h("x") + k(1, "y") + full("z")
}
GEN(int) @G() { YIELD(@F()); RETURN }`, Drives: []Drive{fn("int", "@F", "")}},

	{Name: "EtaBuiltin", Props: []string{"C13", "C11", "C07"}, Src: `
func @F(s string) int {
	f := func(s string) int { return len(s) }
	return f(s)
}
GEN(int) @G() { YIELD(@F("abc")); RETURN }`, Drives: []Drive{fn("int", "@F", `"abc"`)}},

	{Name: "IfInitYield", Props: []string{"C12"}, MayReject: true, Src: `
GEN(int) @G(n int) {
	if YIELD(1); n > 0 {
		YIELD(2)
	}
	RETURN
}`, Drives: []Drive{gen("int", "@G", "1")}},

	{Name: "ElseIfInitYield", Props: []string{"C12"}, MayReject: true, Src: `
// the initialiser of an else-if (and of an else-if of an else-if) is an if initialiser too
GEN(int) @G(n int) {
	YIELD(0)
	if n < 0 {
		YIELD(-1)
	} else if YIELD(1); n > 0 {
		YIELD(2)
	}
	YIELD(3)
	RETURN
}`, Drives: []Drive{gen("int", "@G", "5"), gen("int", "@G", "0")}},

	{Name: "ElseIfInitYieldDeep", Props: []string{"C12"}, MayReject: true, Src: `
GEN(int) @G(n int) {
	if n < 0 {
		YIELD(-1)
	} else if n == 0 {
		YIELD(0)
	} else if YIELD(1); n > 1 {
		YIELD(2)
	} else {
		YIELD(4)
	}
	RETURN
}`, Drives: []Drive{gen("int", "@G", "5"), gen("int", "@G", "1")}},

	{Name: "ElseIfInitYieldTrivialChain", Props: []string{"C12"}, MayReject: true, Src: `
// no other yield inside the if statement: the whole chain would be kept as it is
GEN(int) @G(n int) {
	t := 0
	if n < 0 {
		t = -1
	} else if YIELD(1); n > 0 {
		t = 2
	}
	YIELD(t)
	RETURN
}`, Drives: []Drive{gen("int", "@G", "5")}},

	{Name: "IfInitYieldTrivialBranches", Props: []string{"C12"}, MayReject: true, Src: `
// the ONLY yield of the if statement is its initialiser: no branch yields (else-less, with else, in a loop)
GEN(int) @G(n int) {
	for i := n; i >= 0; i-- {
		if YIELD(i); i%2 == 0 { vm.E("even", i) }
	}
	RETURN
}`, Drives: []Drive{gen("int", "@G", "4")}},

	{Name: "IfInitYieldTrivialElse", Props: []string{"C12"}, MayReject: true, Src: `
GEN(int) @G(n int) {
	if YIELD(n); n > 0 { vm.E("pos") } else { vm.E("nonpos") }
	YIELD(9)
	RETURN
}`, Drives: []Drive{gen("int", "@G", "1"), gen("int", "@G", "0")}},

	{Name: "YieldAsFunctionValue", Props: []string{"C12", "C01"}, MayReject: true, Src: `
// Yield used as a VALUE (bound to a variable, passed as a callback) must be rejected (or behave like the source)
func @each(xs []int, f func(int)) { for _, x := range xs { f(x) } }
GEN(int) @G(xs []int) {
	YIELD(1)
	emit := YIELDVALUE(int)
	emit(2)
	@each(xs, YIELDVALUE(int))
	YIELD(3)
	RETURN
}`, Drives: []Drive{gen("int", "@G", "[]int{7, 8}")}},

	{Name: "DeferInElseOfYieldFreeIf", Props: []string{"C12"}, MayReject: true, Src: `
// the unsupported statement sits in the ELSE block of an if / else without any yield
GEN(int) @G(verbose bool) {
	if verbose { vm.E("verbose") } else { defer vm.E("deferred") }
	YIELD(1)
	YIELD(2)
	RETURN
}`, Drives: []Drive{gen("int", "@G", "false"), gen("int", "@G", "true")}},

	{Name: "SelectInElseOfYieldFreeIf", Props: []string{"C12"}, MayReject: true, Src: `
GEN(int) @G(ch chan int) {
	for i := 0; i < 3; i++ {
		YIELD(i)
		if i > 5 { vm.E("big") } else { select { case <-ch: default: break } }
		YIELD(10 + i)
	}
	RETURN
}`, Drives: []Drive{gen("int", "@G", "nil")}},

	{Name: "RangePointerToArray", Props: []string{"C12", "C04"}, MayReject: true, Src: `
GEN(int) @G() {
	a := &[3]int{1, 2, 3}
	for _, v := range a { YIELD(v) }
	RETURN
}`, Drives: []Drive{gen("int", "@G", "")}},

	{Name: "RangeNilPointerToArray", Props: []string{"C12", "C04"}, MayReject: true, Src: `
// range over a pointer to an array with at most one variable never evaluates *p: it runs len times for nil
GEN(int) @G(p *[3]int) {
	for i := range p {
		YIELD(i)
	}
	n := 0
	for range p { n++ }
	YIELD(100 + n)
	RETURN
}`, Drives: []Drive{gen("int", "@G", "nil"), gen("int", "@G", "&[3]int{7, 8, 9}")}},

	{Name: "GotoInsideClosure", Props: []string{"C12", "C11", "C13"}, Src: `
GEN(int) @G(n int) {
	f := func(k int) int { // an ordinary closure: goto is legal Go here and none of the generator's business
		i := 0
	again:
		if i < k { i++; goto again }
		return i
	}
	YIELD(f(n))
	RETURN
}`, Drives: []Drive{gen("int", "@G", "3")}},

	{Name: "ForRangeIterNoVar", Props: []string{"C06", "C11"}, Src: `
GEN(int) @Nat(n int) { for i := 0; i < n; i++ { YIELD(i) }; RETURN }
func @F(n int) int {
	c := 0
	RANGEITER(, , GENCALL(int, @Nat, n)) { c++ }
	return c
}`, Drives: []Drive{fn("int", "@F", "3")}},

	{Name: "EtaLeavesImportUnused", Props: []string{"C07", "C11", "C13"}, Imports: `"bufio"; "io"; "strings"`, Src: `
// the signature of a reducible closure is the ONLY mention of package io in the file: after the reduction the
// import must go too (import clean-up has to see the file as it is written)
func @F(s string) int {
	mk := func(r io.Reader) *bufio.Reader { return bufio.NewReader(r) }
	b, _ := mk(strings.NewReader(s)).ReadString('l')
	return len(b)
}
GEN(int) @G(s string) {
	YIELD(@F(s))
	YIELD(@F(s + s))
	RETURN
}`, Drives: []Drive{gen("int", "@G", `"hello"`), fn("int", "@F", `"world"`)}},

	{Name: "EtaPackageQualifiedCallees", Props: []string{"C13", "C07", "C11"}, Imports: `"slices"; "strings"; "sort"`, Src: `
// closures that only forward to a function of an imported package: a generic one with inferred type
// arguments is not a value (the closure must stay), a plain one and an instantiated one may be reduced
GEN(int) @G(rows [][]int) {
	max := func(xs []int) int { return slices.Max(xs) }
	idx := func(xs []int, v int) int { return slices.Index(xs, v) }
	inst := func(xs []int) int { return slices.Min[[]int](xs) }
	up := func(s string) string { return strings.ToUpper(s) }
	srt := func(xs []int) { sort.Ints(xs) }
	for _, row := range rows {
		if len(row) == 0 { continue }
		srt(row)
		YIELD(max(row)*100 + idx(row, max(row))*10 + inst(row))
	}
	YIELD(len(up("ab")))
	RETURN
}
func @F(rows [][]int) int {
	max := func(xs []int) int { return slices.Max(xs) }
	t := 0
	for _, r := range rows { if len(r) > 0 { t += max(r) } }
	return t
}`, Drives: []Drive{gen("int", "@G", "[][]int{{3, 5, 1}, {}, {7}, {4, 2}}"), fn("int", "@F", "[][]int{{3, 5, 1}, {}, {7}}")}},

	{Name: "EtaShapes", Props: []string{"C13", "C07", "C11"}, Src: `
type @Node struct { v int; next *@Node }
func (n *@Node) Valid() bool { return n != nil }
func @id[T any](x T) T { return x }
func @dbl(x int) int { return 2 * x }
type @Fns struct{ f func(int) int }
func @F(n int) int {
	conv := func(x int) int64 { return int64(x) }      // a conversion is not a function value
	gen := func(x int) int { return @id(x) }            // an uninstantiated generic function is not a value
	inst := func(x int) int { return @id[int](x) }      // explicit instantiation: fine either way
	pkgf := func(x int) int { return @dbl(x) }          // declared function: fine either way
	fs := @Fns{f: @dbl}
	fld := func(x int) int { return fs.f(x) }           // field of function type: must see later assignments
	fs.f = func(x int) int { return x + 1000 }
	mk := func(x int) []int { return make([]int, x) }   // builtin with a type argument: not even eta shape
	vari := func(xs ...int) int { return len(xs) }
	return int(conv(n)) + gen(n) + inst(n) + pkgf(n) + fld(n) + len(mk(n)) + vari(1, 2)
}
func @sub(a, b int) int { return a - b }
func @less(a, b int) bool { return a < b }
func @sum(xs []int) int { t := 0; for _, x := range xs { t += x }; return t }
func @show(x any) string { if v, ok := x.(int); ok { return string(rune('a' + v)) }; return "?" }
func @zero() int { return 0 }
var @flip = func(a, b int) int { return @sub(b, a) } // package level, arguments swapped
func @Perm(n int) int {
	rsub := func(a, b int) int { return @sub(b, a) }     // swapped: not eta
	same := func(a, b int) int { return @sub(a, b) }     // eta shape over a declared function: fine either way
	dup := func(a, b int) int { return @sub(a, a) }      // duplicated
	desc := func(a, b int) bool { return @less(b, a) }
	three := func(a, b, c int) int { return @sub(@sub(a, b), c) } // nested call: not eta shape
	best := 0
	for _, x := range []int{3, 9, 4} { if desc(best, x) { best = x } }
	return rsub(10, 3)*10000 + same(10, 3)*1000 + dup(n, 5)*100 + best*10 + three(9, 1, 1) + @flip(1, 2)
}
func @Types(n int) string {
	widen := func(x int) any { return @dbl(x) }           // result type differs from the callee's
	spread := func(xs ...int) int { return @sum(xs) }     // variadic closure over a slice parameter
	narrow := func(x int) string { return @show(x) }      // parameter type differs from the callee's
	unnamed := func(int) int { return @zero() }           // unnamed parameter, callee takes none
	var f func(int) any = widen
	_, isInt := f(n).(int)
	r := narrow(n) + string(rune('0'+spread(1, 2, 3))) + string(rune('0'+unnamed(5)))
	if isInt { r += "i" }
	return r
}
GEN(int) @Walk(head *@Node) {
	for n := head; n.Valid(); n = n.next { // the condition closure must call Valid on the CURRENT n
		YIELD(n.v)
	}
	RETURN
}
func @List(k int) *@Node {
	var h *@Node
	for i := k; i > 0; i-- { h = &@Node{i, h} }
	return h
}`, Drives: []Drive{fn("int", "@F", "3"), gen("int", "@Walk", "@List(3)"), gen("int", "@Walk", "nil"), fn("int", "@Perm", "4"), fn("string", "@Types", "2")}},

	{Name: "ClosureControlFlow", Props: []string{"C12", "C13", "C11"}, Src: `
GEN(int) @G(n int) {
	sel := func(ch chan int) int { // break inside select inside an ordinary closure stays a break
		r := 0
		select {
		case v := <-ch:
			if v > 0 { break }
			r = -1
		default:
			r = -2
		}
		return r + 100
	}
	sw := func(k int) int {
		for i := 0; ; i++ {
			switch {
			case i == k: return i
			case i > 100: break
			default: continue
			}
			return -1
		}
	}
	ch := make(chan int, 1)
	YIELD(sel(ch))
	ch <- n
	YIELD(sel(ch))
	for i := 0; i < n; i++ {
		f := func() int { for j := 0; j < 5; j++ { if j == i { break }; if j > i { continue } }; return i }
		YIELD(f() + sw(i))
	}
	RETURN
}`, Drives: []Drive{gen("int", "@G", "2"), gen("int", "@G", "0")}},
}

// Findings: witnesses of known findings (expected to differ or to be rejected on this tree)
var Findings = []Template{
	{Name: "EmbeddedIteratorField", Props: []string{"C06", "C11"}, Finding: "D21", Src: `
type @Wrap struct {
	ITER(int) // embedded: the field is named after the type
	n int
}
GEN(int) @Nat(n int) {
	for i := 0; i < n; i++ { YIELD(i) }
	RETURN
}
func @Sum(n int) int {
	w := @Wrap{ITERFIELD(): GENCALL(int, @Nat, n)}
	s := 0
	for w.ITERFIELD().MoveNext() { s += w.ITERFIELD().Current() }
	for w.MoveNext() { s += 100 } // promoted methods, exhausted by now
	return s + w.n
}`, Drives: []Drive{fn("int", "@Sum", "4")}},
	{Name: "LoopVarPerIteration", Props: []string{"C03"}, Finding: "D17", Src: `
GEN(int) @G(n int) {
	var fs []func() int
	for i := 0; i < n; i++ { // go >= 1.22: every iteration has its own i
		fs = append(fs, func() int { return i })
		YIELD(i)
	}
	for _, f := range fs {
		YIELD(f())
	}
	RETURN
}`, Drives: []Drive{gen("int", "@G", "3")}},
	{Name: "ArrayRangeAliases", Props: []string{"C04"}, Finding: "D4", Src: `
GEN(int) @G() {
	a := [3]int{1, 2, 3}
	for i, v := range a { // Go ranges over a copy of the array
		if i == 0 { a[1], a[2] = 20, 30 }
		YIELD(v)
	}
	RETURN
}`, Drives: []Drive{gen("int", "@G", "")}},

	{Name: "ConsumerInFileWithoutCoImport", Props: []string{"C11", "C06"}, Finding: "D31", Src: `
GEN(int) @Nums(n int) {
	for i := 0; i < n; i++ { YIELD(i) }
	RETURN
}`, Sibling: `
// this file ranges over an iterator but never names the co package, so it does not import it
func @Sum(n int) int {
	s := 0
	RANGEITER(v, :=, GENCALL(int, @Nums, n)) { s += v }
	return s
}`, Drives: []Drive{fn("int", "@Sum", "4")}},

	{Name: "ElementTypeNameShadowed", Props: []string{"C11", "C01"}, Finding: "D33", Src: `
// a parameter / local variable named like the element type of the generator
type @tree struct { v int; l, r *@tree }
GEN(*@tree) @Walk(@tree *@tree) {
	if @tree == nil { RETURN }
	YIELDFROM(GENCALL(*@tree, @Walk, @tree.l))
	YIELD(@tree)
	YIELDFROM(GENCALL(*@tree, @Walk, @tree.r))
	RETURN
}
func @Sum() int {
	t := 0
	RANGEITER(n, :=, GENCALL(*@tree, @Walk, &@tree{2, &@tree{1, nil, nil}, &@tree{3, nil, nil}})) { t = 10*t + n.v }
	return t
}`, Drives: []Drive{fn("int", "@Sum", "")}},

	{Name: "RangeIntegerAssignToTypedVariable", Props: []string{"C11", "C04"}, Finding: "D34", Src: `
// 'for i = range 3' with i declared as uint8: the untyped constant takes the type of the variable
GEN(int) @G() {
	var i uint8
	for i = range 3 { YIELD(int(i) + 250) }
	var j int64
	for j = range 2 { YIELD(int(j)) }
	RETURN
}`, Drives: []Drive{gen("int", "@G", "")}},

	{Name: "ArrayRangeOperandNotEvaluated", Props: []string{"C04", "C18"}, Finding: "D35", Src: `
// with at most one iteration variable and a constant length the array operand is NOT evaluated (Go spec)
type @holder struct{ a [2]int }
GEN(int) @G() {
	var p *[3]int
	for i := range *p { YIELD(i) }
	var h *@holder
	for range h.a { YIELD(9) }
	RETURN
}`, Drives: []Drive{gen("int", "@G", "")}},

	{Name: "LabelledRangeInOrdinaryClosure", Props: []string{"C12", "C11", "C13"}, Finding: "D36", Src: `
// an ordinary closure inside a generator: its range loops are none of the rewriter's business
GEN(int) @G(rows [][]int) {
	count := func() int {
		n := 0
	outer:
		for _, r := range rows {
			for _, v := range r {
				if v < 0 { continue outer }
				n++
			}
		}
		return n
	}
	YIELD(count())
	RETURN
}`, Drives: []Drive{gen("int", "@G", "[][]int{{1, 2}, {3, -1, 4}}")}},

	{Name: "NativeLoopVariablePerIteration", Props: []string{"C03", "C13"}, Finding: "D17", Src: `
// a three-clause loop WITHOUT a yield in a generator body: its := initialiser is hoisted all the same, so under
// go >= 1.22 the closures share one variable
GEN(int) @G(n int) {
	var fs []func() int
	for i := 0; i < n; i++ { fs = append(fs, func() int { return i }) }
	for _, f := range fs { YIELD(f()) }
	RETURN
}`, Drives: []Drive{gen("int", "@G", "3")}},

	{Name: "PartialRedeclarationAcrossYield", Props: []string{"C03", "C01"}, Finding: "D30", Src: `
// 'b, err := ...' after a yield: err was declared earlier in the SAME block, so := assigns to it (only b is new)
GEN(int) @G() {
	a, err := 1, 0
	show := func() int { return err }
	YIELD(a)
	b, err := 2, 7
	YIELD(b + err)
	YIELD(show())
	RETURN
}`, Drives: []Drive{gen("int", "@G", "")}},

	{Name: "PostSeesBodyScope", Props: []string{"C03"}, Finding: "D8", Src: `
GEN(int) @G(n int) {
	a := 42
	for i := 0; i < n; YIELD(a) {
		a := 100 // declared in the body: the post statement must not see it
		_ = a
		i++
	}
	RETURN
}`, Drives: []Drive{gen("int", "@G", "2")}},

	{Name: "ConsumerRedeclaresLoopVar", Props: []string{"C06", "C11"}, Finding: "D11b", Src: `
GEN(int) @Nat(n int) { for i := 0; i < n; i++ { YIELD(i) }; RETURN }
func @F(n int) int {
	s := 0
	RANGEITER(v, :=, GENCALL(int, @Nat, n)) {
		v := v * 2
		s += v
	}
	return s
}`, Drives: []Drive{fn("int", "@F", "3")}},
}
