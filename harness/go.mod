module verif/harness

go 1.22

require github.com/goghcrow/go-co v0.0.0

require (
	github.com/goghcrow/go-ast-matcher v0.1.3 // indirect
	github.com/goghcrow/go-imports v0.0.3-0.20240221114019-5a6ed41cc3b5 // indirect
	github.com/goghcrow/go-loader v0.0.4-0.20240221113906-cab11067771f // indirect
	github.com/goghcrow/go-matcher v0.0.5-0.20240221112341-6675288f4167 // indirect
	golang.org/x/mod v0.15.0 // indirect
	golang.org/x/tools v0.18.0 // indirect
)

replace github.com/goghcrow/go-co => /repo
