module verif/harness

go 1.22

require github.com/goghcrow/go-co v0.0.0

replace github.com/goghcrow/go-co => /repo
