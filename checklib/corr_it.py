"""K3: built-in range iterators (seq/iter.go) vs Go's native range in the same process (impl-level),
   vs the Lean iterator model (model tie), and the Lean range specification vs native range (spec validation)"""
import json, os
from collections import Counter
from common import *
import stages


def k3(ctx):
    def run():
        h = stages.harness_stage(ctx)
        if not h["ok"]:
            return {"ok": False, "broken": "harness build failed", "detail": h["output"]}
        wd = ctx.workdir("k3")
        rc, out = sh([h["bin"], "k3", "-out", wd, "-tier", ctx.tier, "-seed", str(ctx.seed)], env=GOENV, timeout=3600)
        if rc != 0:
            return {"ok": False, "broken": "implementation run crashed", "detail": out[-3000:], "crash": True}
        cases = [json.loads(l) for l in open(os.path.join(wd, "cases.jsonl")) if l.strip()]
        reqs = [c for c in cases if c["req"]]
        with open(os.path.join(wd, "req.txt"), "w") as f:
            f.write("\n".join(c["req"] for c in reqs) + "\n")
        rc, err = stages.drive(os.path.join(wd, "req.txt"), os.path.join(wd, "lean.txt"))
        if rc != 0:
            return {"ok": False, "broken": "lean driver failed", "detail": err}
        lean = [l.rstrip("\n") for l in open(os.path.join(wd, "lean.txt"))]
        parts = {k: {"n": 0, "dis": []} for k in ("native", "model", "spec")}
        for c in cases:
            parts["native"]["n"] += 1
            if c["impl"] != c["native"]:
                parts["native"]["dis"].append({"kind": c["kind"], "input": c["input"], "impl": c["impl"][:300],
                                               "reference": c["native"][:300], "size": len(c["input"])})
        for c, l in zip(reqs, lean):
            if l.startswith("bad-"):
                # every request kind is modelled (slices since session 4): an unanswered request is a broken tie
                parts["model"]["n"] += 1
                parts["model"]["dis"].append({"kind": c["kind"], "input": c["input"], "model": l[:300], "impl": c["impl"][:300], "size": len(c["input"])})
                continue
            m, _, s = l.partition(" ### ")
            parts["model"]["n"] += 1
            parts["spec"]["n"] += 1
            if m != c["impl"]:
                parts["model"]["dis"].append({"kind": c["kind"], "input": c["input"], "model": m[:300], "impl": c["impl"][:300], "size": len(c["input"])})
            if s != c["native"]:
                parts["spec"]["dis"].append({"kind": c["kind"], "input": c["input"], "model": s[:300], "reference": c["native"][:300], "size": len(c["input"])})
        for k in parts:
            parts[k]["dis"].sort(key=lambda d: d["size"])
            parts[k]["n_dis"] = len(parts[k]["dis"])
            parts[k]["dis"] = parts[k]["dis"][:10]
        stats = json.load(open(os.path.join(wd, "stats.json")))
        kinds = Counter(c["kind"] for c in cases)
        nontrivial = len({c["impl"] for c in cases if c["impl"]})
        samples = [f"{c['kind']} {c['input']} => {c['impl'][:80]}" for c in cases[5000:5003]] + \
                  [f"{c['kind']} {c['input']} => {c['impl'][:80]}" for c in cases if c["kind"] in ("slice", "map")][:3]
        return {"ok": all(p["n_dis"] == 0 for p in parts.values()), "parts": parts, "evaluations": len(cases),
                "distinct_nontrivial": nontrivial, "kinds": dict(kinds), "stats": stats, "samples": samples}
    return ctx.stage("k3", run)
