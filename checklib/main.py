import argparse, json, os, sys, time
from common import *
import props, stages, corr_rt

CORRS = {
    "k1": corr_rt.k1,
}


def write_replay(pid, name, payload):
    p = os.path.join(OUT, f"replay_{pid}_{name}.json")
    with open(p, "w") as f:
        json.dump(payload, f, indent=1)
    return p


def main(argv):
    ap = argparse.ArgumentParser()
    ap.add_argument("prop")
    ap.add_argument("--tier", default=os.environ.get("VERIF_TIER", "quick"))
    ap.add_argument("--replay")
    a = ap.parse_args(argv)
    pid = a.prop
    if pid not in props.PROPS:
        print(f"unknown property {pid}", file=sys.stderr)
        return 2
    tier = a.tier if a.tier in ("quick", "thorough") else "quick"
    try:
        seed = int(os.environ.get("VERIF_SEED", "1"))
    except ValueError:
        seed = 1
    if a.replay:
        return replay(pid, a.replay)
    t0 = time.time()
    ctx = Ctx(tier, seed)
    P = props.PROPS[pid]
    violations = []      # (replay_path, found_input: bool)
    known_lines = []
    obligations = []     # (name, discharged)

    # ---- proofs ----
    L = stages.lean_stage(ctx)
    for th in P["theorems"]:
        ax = L["axioms"].get(th)
        okth = ax is not None and set(ax) <= ALLOWED_AXIOMS
        obligations.append(("theorem " + th, okth, ax))
    if L["forbidden"]:
        obligations.append(("no sorry/admit/native_decide/axiom in sources", False, L["forbidden"][:5]))
    else:
        obligations.append(("no sorry/admit/native_decide/axiom in sources", True, None))
    broken_proofs = [o for o in obligations if not o[1]]

    # ---- correspondences ----
    corr_results = {}
    for c in P["corr"]:
        r = CORRS[c](ctx)
        corr_results[c] = r
        obligations.append(("correspondence " + c, bool(r.get("ok")), None))

    # ---- decide ----
    known = [k for k in load_known() if pid in k.get("properties", []) and k.get("status") == "open"]
    for c, r in corr_results.items():
        if r.get("ok"):
            continue
        if r.get("broken"):
            # the correspondence itself could not run
            found = bool(r.get("crash"))
            rp = write_replay(pid, c, {"property": pid, "what": f"correspondence {c} could not be evaluated: {r['broken']}",
                                       "detail": r.get("detail"), "failing_input_found": found})
            violations.append((rp, found))
            continue
        for d in r.get("disagreements", [])[:1]:
            found = bool(d.get("impl_vs_spec", True))
            rp = write_replay(pid, c, {
                "property": pid, "correspondence": c, "input": d.get("request"),
                "implementation": d.get("impl"), "model": d.get("model"), "specification": d.get("spec"),
                "failing_input_found": found,
                "how_to_replay": f"{VERIF}/check {pid} --replay <this file>",
                "note": "smallest of %d disagreeing inputs" % r.get("n_disagreements", 1)})
            violations.append((rp, found))
    if broken_proofs and not violations:
        # a proof obligation no longer checks and no correspondence exhibits a failing input
        rp = write_replay(pid, "proof", {"property": pid, "what": "proof obligation(s) no longer check",
                                         "obligations": [[o[0], o[2]] for o in broken_proofs],
                                         "lean_errors": L["errors"][-1:] if L["errors"] else [],
                                         "failing_input_found": False})
        violations.append((rp, False))

    # ---- evidence ----
    evals = sum(r.get("histories", r.get("evaluations", 0)) for r in corr_results.values())
    ev = {
        "property_id": pid, "tier": tier, "seed": seed, "level": "proof",
        "coverage": {
            "obligations": len(obligations),
            "discharged": len([o for o in obligations if o[1]]),
            "checker_cmd": "cd /verif/lean && lake build GoCo && lake env lean <Audit.lean: #print axioms of every property theorem>"
                           + ("; lake env leanchecker GoCo" if tier == "thorough" else ""),
            "trusted_base": props.TB_COMMON + ["modelled, not verified: " + P["modelled"]],
            "obligation_list": [{"name": o[0], "discharged": o[1], "axioms": o[2]} for o in obligations],
            "evaluations": evals,
            "distinct_nontrivial": sum(r.get("distinct_nontrivial", 0) for r in corr_results.values()),
            "rule": "correspondence inputs: see per-correspondence stats; non-trivial = a run with at least one successful advance or a panic; distinct = distinct implementation answer strings",
            "samples": sum([r.get("stats", {}).get("samples", [])[:3] for r in corr_results.values()], []) or ["(none)"],
            "correspondences": {c: {k: v for k, v in r.items() if k not in ("disagreements",)} for c, r in corr_results.items()},
            "exhaustive": False,
        },
        "assumptions": props.TB_COMMON,
        "wall_s": round(time.time() - t0, 2),
        "violations": len(violations),
    }
    with open(os.path.join(EVIDENCE, pid + ".json"), "w") as f:
        json.dump(ev, f, indent=1)

    for line in known_lines:
        print(line)
    if violations:
        for rp, found in violations:
            print(f"VIOLATION property={pid} replay={rp}" + ("" if found else " no-failing-input-found"))
        return 1
    print(f"OK property={pid} tier={tier} obligations={len(obligations)} wall={ev['wall_s']}s")
    return 0


def replay(pid, path):
    data = json.load(open(path))
    ctx = Ctx("quick", 1)
    h = stages.harness_stage(ctx)
    print(json.dumps(data, indent=1))
    if data.get("correspondence") == "k1" and h["ok"]:
        rc, out = sh([h["bin"], "k1-replay", data["input"]], env=GOENV)
        print("implementation now:", out.strip())
        print("specification     :", data.get("specification"))
        return 0 if out.strip() == data.get("specification") else 1
    return 1
