import argparse, json, os, sys, time
from common import *
import props, stages, corr_rt, corr_cc, corr_it, corr_tb, corr_k8, corr_k10

CORRS = {
    "k1": corr_rt.k1,
    "cc": corr_cc.cc,
    "k3": corr_it.k3,
    "k2": corr_rt.k2,
    "k1i": corr_rt.k1i,
    "race": corr_rt.race,
    "tb": corr_tb.tb,
    "k8": corr_k8.k8,
    "k10": corr_k10.k10,
    "k11": corr_k10.k11,
}


def write_replay(pid, name, payload):
    p = os.path.join(OUT, f"replay_{pid}_{name}.json")
    with open(p, "w") as f:
        json.dump(payload, f, indent=1)
    return p


def main(argv):
    ap = argparse.ArgumentParser()
    ap.add_argument("prop")
    ap.add_argument("--tier", default=os.environ.get("VERIF_TIER", "quick"))
    ap.add_argument("--replay")
    a = ap.parse_args(argv)
    pid = a.prop
    if pid not in props.PROPS:
        print(f"unknown property {pid}", file=sys.stderr)
        return 2
    tier = a.tier if a.tier in ("quick", "thorough") else "quick"
    try:
        seed = int(os.environ.get("VERIF_SEED", "1"))
    except ValueError:
        seed = 1
    if a.replay:
        return replay(pid, a.replay)
    t0 = time.time()
    ctx = Ctx(tier, seed)
    P = props.PROPS[pid]
    violations = []      # (replay_path, found_input: bool)
    known_lines = []
    obligations = []     # (name, discharged)

    # ---- proofs ----
    L = stages.lean_stage(ctx)
    for th in P["theorems"]:
        ax = L["axioms"].get(th)
        okth = ax is not None and set(ax) <= ALLOWED_AXIOMS
        obligations.append(("theorem " + th, okth, ax))
    for fm in P.get("facts", []):
        okf = bool(L.get("facts", {}).get(fm))
        obligations.append(("source facts " + fm + " (declarations of the modelled file unchanged)", okf,
                            None if okf else L.get("facts_changed")))
    if L["forbidden"]:
        obligations.append(("no sorry/admit/native_decide/axiom in sources", False, L["forbidden"][:5]))
    else:
        obligations.append(("no sorry/admit/native_decide/axiom in sources", True, None))
    broken_proofs = [o for o in obligations if not o[1]]

    # ---- correspondences ----
    # a property names (stage, part) pairs; a stage is computed once per tree state and shared
    stage_results, part_results = {}, {}
    for stage, part in P["corr"]:
        if stage not in stage_results:
            stage_results[stage] = CORRS[stage](ctx)
        r = stage_results[stage]
        name = stage if part is None else f"{stage}:{part}"
        if r.get("broken"):
            pr = {"ok": False, "broken": r["broken"], "detail": r.get("detail"), "crash": r.get("crash"), "n": 0, "dis": []}
        elif part is None:
            pr = {"ok": bool(r.get("ok")), "n": r.get("histories", r.get("evaluations", 0)),
                  "n_dis": r.get("n_disagreements", 0), "dis": r.get("disagreements", [])}
        elif part not in (r.get("parts") or {}):
            # the stage ran but could not get as far as this part (e.g. nothing to run because the build failed)
            pr = {"ok": False, "broken": f"part {part} of {stage} was not evaluated (an earlier part of the stage failed)", "detail": None, "crash": None, "n": 0, "dis": []}
        else:
            q = r["parts"][part]
            dd = [d for d in q["dis"] if "props" not in d or pid in d["props"]]
            pr = {"ok": len(dd) == 0, "n": q["n"], "n_dis": len(dd), "dis": dd}
        part_results[name] = pr
        obligations.append(("correspondence " + name, pr["ok"], None))

    # ---- decide ----
    # impl-level disagreements (implementation vs an oracle that does not depend on the model) are
    # failing inputs; model-level ones mean the model no longer describes the code: search the
    # impl-level results of this run for a failing input, else report no-failing-input-found.
    def impl_level(name, d):
        if name in ("k1", "k1i", "race"):
            return bool(d.get("impl_vs_spec", True))
        if name == "k2":
            return bool(d.get("impl_deeper"))
        if name in ("cc:k6a", "cc:k6d", "cc:k4acc", "cc:k6build", "cc:k9impl", "k10:build", "k11:build", "k11:run", "k3:native", "tb:run", "tb:opt", "tb:accept", "k8:c13", "k8:c15", "k8:c16"):
            return True
        if name == "cc:k6e":
            return "Buildable=True" in d.get("model", "") or "Buildable=true" in d.get("model", "")
        return False

    failing, modelonly, broken = [], [], []
    for name, pr in part_results.items():
        if pr.get("broken"):
            broken.append((name, pr))
            continue
        for d in pr["dis"]:
            (failing if impl_level(name, d) else modelonly).append((name, d))
    # widen the search: any impl-level disagreement of the stages this property uses
    if (modelonly or broken_proofs) and not failing:
        for stage, r in stage_results.items():
            for part, q in (r.get("parts") or {}).items():
                name = f"{stage}:{part}"
                for d in q["dis"]:
                    if impl_level(name, d) and name in P.get("search", []):
                        failing.append((name, d))
    # escalate the search: a proof obligation or a correspondence broke and this run holds no failing input -
    # run the correspondences of this property again with other seeds (other random programs, terms, histories)
    escalated = []
    if (modelonly or broken_proofs) and not failing and not a.replay and os.environ.get("VERIF_NO_ESCALATE") != "1":
        for extra in (101, 202, 303):
            ctx2 = Ctx(tier, seed + extra)
            sr2 = {}
            for stage, part in P["corr"]:
                if stage in ("tb", "k8", "k10", "k11", "k3"):
                    continue  # deterministic stages: nothing new under another seed
                if stage not in sr2:
                    try:
                        sr2[stage] = CORRS[stage](ctx2)
                    except Exception as e:  # a broken stage is reported by the main run already
                        sr2[stage] = {"broken": str(e)}
                r2 = sr2[stage]
                if r2.get("broken"):
                    continue
                name = stage if part is None else f"{stage}:{part}"
                dd = (r2.get("disagreements", []) if part is None else (r2.get("parts") or {}).get(part, {}).get("dis", []))
                for d in dd:
                    if ("props" not in d or pid in d["props"]) and impl_level(name, d):
                        failing.append((name, dict(d, found_with_seed=seed + extra)))
            escalated.append(seed + extra)
            if failing:
                break
    failing.sort(key=lambda x: x[1].get("size", 0))
    for name, pr in broken:
        found = bool(pr.get("crash"))
        rp = write_replay(pid, name.replace(":", "_"), {"property": pid,
             "what": f"correspondence {name} could not be evaluated: {pr['broken']}", "detail": pr.get("detail"),
             "failing_input_found": found})
        violations.append((rp, found))
    if failing:
        name, d = failing[0]
        rp = write_replay(pid, name.replace(":", "_"), dict(d, property=pid, correspondence=name, failing_input_found=True,
             how_to_replay=f"{VERIF}/check {pid} --replay <this file>",
             note="smallest of %d failing inputs; %d further model/implementation disagreements" % (len(failing), len(modelonly))))
        violations.append((rp, True))
    elif modelonly:
        name, d = modelonly[0]
        rp = write_replay(pid, name.replace(":", "_"), dict(d, property=pid, correspondence=name, failing_input_found=False,
             what=f"correspondence {name} no longer holds: the Lean model and the implementation disagree on this input, "
                  "but no input was found on which the implementation differs from the property's oracle"))
        violations.append((rp, False))
    if broken_proofs and not violations:
        rp = write_replay(pid, "proof", {"property": pid, "what": "proof obligation(s) no longer check",
                                         "obligations": [[o[0], o[2]] for o in broken_proofs],
                                         "lean_errors": L["errors"][-1:] if L["errors"] else [],
                                         "failing_input_found": False})
        violations.append((rp, False))
    corr_results = part_results

    # ---- known findings: replay each listed witness against the real code ----
    known = [k for k in load_known() if pid in k.get("properties", []) and k.get("status") == "open"]
    kf_report = []
    if any(k.get("kind") == "cc" for k in known):
        kr = corr_cc.cc_findings(ctx)
        for k in known:
            if k.get("kind") != "cc":
                continue
            v = (kr.get("witness") or {}).get(k["program"])
            if v is None:
                kf_report.append({"id": k["id"], "state": "not evaluated"})
                continue
            if k["expect"] == "differs":
                still = v.get("impl_eq_reference") is False
            elif k["expect"] == "panic":
                still = v.get("status") == "panic"
            elif k["expect"] == "unbuildable":
                still = bool(v.get("build"))
            else:
                still = False
            kf_report.append({"id": k["id"], "state": "reproduces" if still else "no longer reproduces", "observed": v})
            if still:
                known_lines.append(f"KNOWN-FINDING: property={pid} {k['id']} {k['what']}")

    if any(k.get("kind") == "tb" for k in known):
        tr = stage_results.get("tb") or corr_tb.tb(ctx)
        for k in known:
            if k.get("kind") != "tb":
                continue
            v = (tr.get("witness") or {}).get(k["template"])
            still = bool(v and v.get("reproduces"))
            kf_report.append({"id": k["id"], "template": k["template"], "state": "reproduces" if still else "no longer reproduces", "observed": v})
            if still:
                known_lines.append(f"KNOWN-FINDING: property={pid} {k['id']}/{k['template']} {k['what']}")
    if any(k.get("kind") == "k8" for k in known):
        kr8 = stage_results.get("k8") or corr_k8.k8(ctx)
        for k in known:
            if k.get("kind") != "k8":
                continue
            v = (kr8.get("witness") or {}).get(k["case"])
            still = bool(v and v.get("reproduces"))
            kf_report.append({"id": k["id"], "case": k["case"], "state": "reproduces" if still else "no longer reproduces", "observed": v})
            if still:
                known_lines.append(f"KNOWN-FINDING: property={pid} {k['id']}/{k['case']} {k['what']}")
    if any(k.get("kind") == "k11" for k in known):
        kr11 = stage_results.get("k11") or corr_k10.k11(ctx)
        for k in known:
            if k.get("kind") != "k11":
                continue
            v = (kr11.get("witness") or {}).get(k["case"])
            still = bool(v and v.get("reproduces"))
            kf_report.append({"id": k["id"], "case": k["case"], "state": "reproduces" if still else "no longer reproduces", "observed": v})
            if still:
                known_lines.append(f"KNOWN-FINDING: property={pid} {k['id']}/{k['case']} {k['what']}")
    for k in known:
        if k.get("kind") == "k2":
            g = stage_results.get("k2", {}).get("growth_witness", "")
            import re as _re
            m = _re.search(r"per_iteration=([0-9.]+)", g)
            still = bool(m) and float(m.group(1)) > 0.5
            kf_report.append({"id": k["id"], "state": "reproduces" if still else "no longer reproduces", "observed": g})
            if still:
                known_lines.append(f"KNOWN-FINDING: property={pid} {k['id']} {k['what']}")

    # ---- evidence ----
    evals = sum(r.get("n", 0) for r in corr_results.values())
    stage_cov = {}
    for stage, r in stage_results.items():
        stage_cov[stage] = {k: v for k, v in r.items() if k not in ("disagreements", "parts", "detail")}
    ev = {
        "property_id": pid, "tier": tier, "seed": seed, "level": P.get("level", "proof"),
        "coverage": {
            "obligations": len(obligations),
            "discharged": len([o for o in obligations if o[1]]),
            "checker_cmd": "cd /verif/lean && lake build GoCo && lake env lean <Audit.lean: #print axioms of every property theorem>"
                           + ("; lake env leanchecker GoCo" if tier == "thorough" else ""),
            "trusted_base": props.TB_COMMON + ["modelled, not verified: " + P["modelled"]],
            "obligation_list": [{"name": o[0], "discharged": o[1], "axioms": o[2]} for o in obligations],
            "evaluations": evals,
            "programs": max(1, evals),
            "disagreements_checked": sum(r.get("n_dis", 0) for r in corr_results.values()),
            "distinct_nontrivial": sum(r.get("distinct_nontrivial", 0) for r in stage_results.values()),
            "rule": "correspondence inputs: see per-correspondence stats; non-trivial = a run with at least one successful advance or a panic; distinct = distinct implementation answer strings",
            "samples": sum([(r.get("stats", {}).get("samples") or r.get("samples") or [])[:3] for r in stage_results.values()], []) or ["(none)"],
            "correspondences": {c: {"inputs": r.get("n", 0), "disagreements": r.get("n_dis", 0)} for c, r in corr_results.items()},
            "stages": stage_cov,
            "known_findings": kf_report,
            "search_escalated_to_seeds": escalated,
            "exhaustive": False,
        },
        "assumptions": props.TB_COMMON,
        "wall_s": round(time.time() - t0, 2),
        "violations": len(violations),
    }
    with open(os.path.join(EVIDENCE, pid + ".json"), "w") as f:
        json.dump(ev, f, indent=1)

    for line in known_lines:
        print(line)
    if violations:
        for rp, found in sorted(violations, key=lambda v: not v[1]):  # those with a failing input first
            print(f"VIOLATION property={pid} replay={rp}" + ("" if found else " no-failing-input-found"))
        return 1
    print(f"OK property={pid} tier={tier} obligations={len(obligations)} wall={ev['wall_s']}s")
    return 0


def replay(pid, path):
    data = json.load(open(path))
    ctx = Ctx("quick", 1)
    h = stages.harness_stage(ctx)
    print(json.dumps(data, indent=1))
    if data.get("correspondence") == "k1" and h["ok"]:
        rc, out = sh([h["bin"], "k1-replay", data["input"]], env=GOENV)
        print("implementation now:", out.strip())
        print("specification     :", data.get("specification"))
        return 0 if out.strip() == data.get("specification") else 1
    return 1
