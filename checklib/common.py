import fcntl, hashlib, json, os, subprocess, sys, time

VERIF = os.path.dirname(os.path.dirname(os.path.abspath(__file__)))
REPO = os.environ.get("VERIF_REPO", "/repo")
LEAN = os.path.join(VERIF, "lean")
HARNESS = os.path.join(VERIF, "harness")
CACHE = os.path.join(VERIF, ".cache")
# VERIF_SCRATCH_OUT: seed / sweep runs on a snapshot of the repository write replays and evidence there,
# never into the committed evidence directory (which must come from runs against /repo itself)
_scr = os.environ.get("VERIF_SCRATCH_OUT")
OUT = os.path.join(_scr, "out") if _scr else os.path.join(VERIF, "out")
EVIDENCE = os.path.join(_scr, "evidence") if _scr else os.path.join(VERIF, "evidence")
if _scr:
    os.makedirs(OUT, exist_ok=True)
    os.makedirs(EVIDENCE, exist_ok=True)
DRV = os.path.join(LEAN, ".lake", "build", "bin", "gocodrv")

GOENV = dict(os.environ, GOFLAGS="-mod=mod", GOPROXY="off", GOSUMDB="off", GOTOOLCHAIN="local",
             CGO_ENABLED="0")

ALLOWED_AXIOMS = {"propext", "Classical.choice", "Quot.sound"}


def log(*a):
    print("[check]", *a, file=sys.stderr, flush=True)


def sh(cmd, cwd=None, env=None, timeout=None, input=None):
    """run, return (rc, stdout+stderr)"""
    try:
        p = subprocess.run(cmd, cwd=cwd, env=env, shell=isinstance(cmd, str), input=input,
                           stdout=subprocess.PIPE, stderr=subprocess.STDOUT, timeout=timeout, text=True)
        return p.returncode, p.stdout
    except subprocess.TimeoutExpired as e:
        return 124, (e.stdout or "") + "\nTIMEOUT"


def file_hash(paths):
    h = hashlib.sha256()
    for p in sorted(paths):
        h.update(p.encode())
        try:
            with open(p, "rb") as f:
                h.update(f.read())
        except OSError:
            h.update(b"<missing>")
    return h.hexdigest()


def walk(root, exts=None, skip_dirs=(".git", ".lake", "node_modules")):
    out = []
    for d, dirs, files in os.walk(root):
        dirs[:] = [x for x in dirs if x not in skip_dirs]
        for f in files:
            if exts is None or any(f.endswith(e) for e in exts):
                out.append(os.path.join(d, f))
    return out


def repo_hash():
    return file_hash(walk(REPO))


def verif_hash():
    files = walk(os.path.join(LEAN), exts=(".lean", ".toml"))
    files = [f for f in files if not f.endswith(os.path.join("Facts", "Extracted.lean"))]
    files += walk(HARNESS, exts=(".go", ".mod", ".sum", ".tmpl"))
    files += walk(os.path.join(VERIF, "checklib"), exts=(".py",))
    files += walk(os.path.join(VERIF, "corpus"))
    files += [os.path.join(VERIF, "known_findings.json")]
    return file_hash(files)


class Ctx:
    def __init__(self, tier, seed):
        self.tier = tier
        self.seed = seed
        self.t0 = time.time()
        self.rh = repo_hash()
        self.vh = verif_hash()
        # lean/harness artefacts depend on sources only; correspondence results also on seed and tier
        self.build_key = hashlib.sha256((self.rh + self.vh).encode()).hexdigest()[:20]
        self.key = hashlib.sha256((self.rh + self.vh + str(seed) + tier).encode()).hexdigest()[:20]
        self.dir = os.path.join(CACHE, self.key)
        self.bdir = os.path.join(CACHE, "b-" + self.build_key)
        os.makedirs(self.dir, exist_ok=True)
        os.makedirs(self.bdir, exist_ok=True)
        os.makedirs(OUT, exist_ok=True)
        os.makedirs(EVIDENCE, exist_ok=True)
        self._prune()

    def _prune(self):
        """keep the cache small: drop entries older than 6 hours"""
        now = time.time()
        try:
            for e in os.listdir(CACHE):
                p = os.path.join(CACHE, e)
                if p in (self.dir, self.bdir):
                    continue
                if now - os.path.getmtime(p) > 6 * 3600:
                    sh(["rm", "-rf", p])
        except OSError:
            pass

    def stage(self, name, fn, build=False):
        """run fn() once per cache key; returns its JSON-able result"""
        d = self.bdir if build else self.dir
        path = os.path.join(d, name + ".json")
        lock = open(os.path.join(d, name + ".lock"), "w")
        fcntl.flock(lock, fcntl.LOCK_EX)
        try:
            if os.path.exists(path):
                with open(path) as f:
                    return json.load(f)
            t = time.time()
            res = fn()
            res["wall_s"] = round(time.time() - t, 2)
            tmp = path + ".tmp"
            with open(tmp, "w") as f:
                json.dump(res, f, indent=1)
            os.replace(tmp, path)
            return res
        finally:
            fcntl.flock(lock, fcntl.LOCK_UN)
            lock.close()

    def workdir(self, name):
        p = os.path.join(self.dir, name)
        os.makedirs(p, exist_ok=True)
        return p


def load_known():
    p = os.path.join(VERIF, "known_findings.json")
    if not os.path.exists(p):
        return []
    with open(p) as f:
        return json.load(f)["findings"]
