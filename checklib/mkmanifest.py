"""regenerates /verif/MANIFEST.json from the property table (run by hand after editing props.py)"""
import json, os, sys
sys.path.insert(0, os.path.dirname(os.path.abspath(__file__)))
import props

VERIF = os.path.dirname(os.path.dirname(os.path.abspath(__file__)))
ALL = ["C%02d" % i for i in range(1, 19)]

checks = []
for pid in ALL:
    if pid not in props.PROPS:
        continue
    P = props.PROPS[pid]
    checks.append({
        "property_id": pid,
        "quick_cmd": f"./check {pid} --tier quick",
        "thorough_cmd": f"./check {pid} --tier thorough",
        "evidence_file": f"/verif/evidence/{pid}.json",
        "replay_cmd_template": f"./check {pid} --replay {{path}}",
        "engine": "lean4-model+correspondence",
        "level_claimed": {"category": P.get("level", "proof"), "text": P["level_text"], "design_ref": P.get("design_ref", "DESIGN.md section 6")},
        "level_note": P["level_note"],
        "technique": P["technique"],
    })

na = []
for pid in ALL:
    if pid not in props.PROPS:
        na.append({"property_id": pid, "reason": props.NOT_YET.get(pid, "check under construction; see DESIGN.md section 6")})

m = {
    "version": 1,
    "setup_cmd": "cd /verif/lean && lake build gocodrv GoCo && cd /verif/harness && GOFLAGS=-mod=mod GOPROXY=off GOSUMDB=off GOTOOLCHAIN=local go build -tags verif -o /dev/null ./cmd/vh",
    "hooks": {
        "guard": "verif",
        "enable": "go build -tags verif (harness module /verif/harness replaces github.com/goghcrow/go-co with /repo)",
        "baseline_off_cmd": "cd /repo && go test -vet=off -count=1 ./seq/... ./rewriter ./example ./example/tree/... ./example/linq/... ./example/lexer/... ./example/sched1/... ./example/sched2/...",
        "source_commits": props.HOOK_COMMITS,
        "add_only": True,
    },
    "engines": [
        {"name": "lean4-model+correspondence", "path": "/verif/lean, /verif/harness, /verif/check",
         "serves_properties": [c["property_id"] for c in checks],
         "kind_free_text": "Lean 4 theorems about a hand-written model of go-co; the model is tied to /repo on every run by a Go harness that runs the model's executable definitions (compiled driver, line protocol) and the real code on the same inputs, plus facts regenerated from the source by a go/ast extractor"},
    ],
    "checks": checks,
    "not_applicable": na,
    "notes": "See DESIGN.md. Known findings: /verif/known_findings.json. Seeded changes used to test the checks: /verif/seeded/.",
}
with open(os.path.join(VERIF, "MANIFEST.json"), "w") as f:
    json.dump(m, f, indent=1)
print("wrote MANIFEST.json with", len(checks), "checks,", len(na), "not applicable")
