"""K10: the shape of the two range lowerings read back from the real compiler's output, for every valid form of
the range clause, against the Lean model's lowerGen / lowerConsumer (whose correctness is a theorem)."""
import json, os
from common import *
import stages


def k10(ctx):
    def run():
        h = stages.harness_stage(ctx)
        if not h["ok"]:
            return {"ok": False, "broken": "harness build failed", "detail": h["output"]}
        wd = ctx.workdir("k10")
        rc, out = sh([h["bin"], "k10", "-dir", wd, "-repo", REPO], env=GOENV, timeout=1800)
        if rc != 0:
            return {"ok": False, "broken": "k10 harness failed", "detail": out[-3000:]}
        r = json.load(open(os.path.join(wd, "k10.json")))
        if r.get("error"):
            return {"ok": False, "broken": "the compiler rejected the range forms", "detail": r["error"], "crash": True}
        forms = r["forms"]
        with open(os.path.join(wd, "req.txt"), "w") as f:
            f.write("\n".join(x["req"] for x in forms) + "\n")
        rc, err = stages.drive(os.path.join(wd, "req.txt"), os.path.join(wd, "ans.txt"))
        if rc != 0:
            return {"ok": False, "broken": "lean driver failed", "detail": err}
        ans = [l.rstrip("\n") for l in open(os.path.join(wd, "ans.txt"))]
        dis = []
        for i, (x, a) in enumerate(zip(forms, ans)):
            if x["impl"] != a:
                dis.append({"form": x["req"], "impl": x["impl"], "model": a, "size": i})
        parts = {"shape": {"n": len(forms), "n_dis": len(dis), "dis": dis},
                 "build": {"n": 1, "n_dis": 1 if r.get("build") else 0,
                           "dis": [{"impl": r["build"], "reference": "the generated package builds", "size": 0}] if r.get("build") else []}}
        return {"ok": all(p["n_dis"] == 0 for p in parts.values()), "parts": parts, "evaluations": len(forms),
                "distinct_nontrivial": len(set(x["impl"] for x in forms)),
                "samples": [f"{x['req']} -> {x['impl']}" for x in forms[:3]]}
    return ctx.stage("k10", run)


def k11(ctx):
    """K11: the optimiser's decision on one user closure per eta shape vs the Lean decision etaOK"""
    def run():
        h = stages.harness_stage(ctx)
        if not h["ok"]:
            return {"ok": False, "broken": "harness build failed", "detail": h["output"]}
        wd = ctx.workdir("k11")
        rc, out = sh([h["bin"], "k11", "-dir", wd, "-repo", REPO], env=GOENV, timeout=1800)
        if rc != 0:
            return {"ok": False, "broken": "k11 harness failed", "detail": out[-3000:]}
        r = json.load(open(os.path.join(wd, "k11.json")))
        if r.get("error"):
            return {"ok": False, "broken": "the compiler rejected the closure shapes", "detail": r["error"], "crash": True}
        shapes = r["shapes"]
        with open(os.path.join(wd, "req.txt"), "w") as f:
            f.write("\n".join(x["req"] for x in shapes) + "\n")
        rc, err = stages.drive(os.path.join(wd, "req.txt"), os.path.join(wd, "ans.txt"))
        if rc != 0:
            return {"ok": False, "broken": "lean driver failed", "detail": err}
        ans = [l.rstrip("\n") for l in open(os.path.join(wd, "ans.txt"))]
        dis = [{"shape": x["req"], "closure": x["code"], "impl": x["impl"], "model": a, "size": i}
               for i, (x, a) in enumerate(zip(shapes, ans)) if x["impl"] != a]
        parts = {"decision": {"n": len(shapes), "n_dis": len(dis), "dis": dis},
                 "build": {"n": 1, "n_dis": 1 if r.get("build") else 0,
                           "dis": [{"impl": r["build"], "reference": "the generated package builds", "size": 0}] if r.get("build") else []}}
        run = r.get("run") or {}
        rdis = [{"impl": "generated package (%s build): %s" % (m, run.get("gen:" + m)), "reference": "source package: %s" % run.get("src:" + m),
                 "what": "Probe() of the plain functions with deferred eta-shaped closures", "size": i}
                for i, m in enumerate(("noinline", "default")) if run.get("gen:" + m) != run.get("src:" + m)]
        if run:
            parts["run"] = {"n": 2, "n_dis": len(rdis), "dis": rdis}
        # witnesses of listed findings (known_findings.json, kind k11): reported, never a disagreement
        witness = {"deferred-through-variable": {
            "reproduces": bool(run) and run.get("gen:noinline:findings") != run.get("src:noinline:findings"),
            "source": run.get("src:noinline:findings"), "generated": run.get("gen:noinline:findings"),
            "with_inlining": {"source": run.get("src:default:findings"), "generated": run.get("gen:default:findings")}}}
        return {"ok": all(p["n_dis"] == 0 for p in parts.values()), "parts": parts, "evaluations": len(shapes),
                "distinct_nontrivial": len(shapes), "samples": [f"{x['code']} -> {x['impl']}" for x in shapes[:3]], "witness": witness}
    return ctx.stage("k11", run)
