"""build stages shared by all properties: facts extraction, Lean build + audit, Go harness build"""
import json, os, re
from common import *


def lean_stage(ctx):
    def run():
        res = {"ok": True, "errors": [], "failed_modules": [], "axioms": {}, "forbidden": []}
        # 1. regenerate the extracted facts from /repo (deleted first) and re-prove the fact modules
        ext = os.path.join(LEAN, "GoCo", "Facts", "Extracted.lean")
        fjson = os.path.join(ctx.bdir, "facts.json")
        try:
            os.remove(ext)
        except OSError:
            pass
        rc, out = sh(["go", "run", "./cmd/extract", "-repo", REPO, "-out", ext, "-json", fjson],
                     cwd=HARNESS, env=GOENV, timeout=600)
        if rc != 0 or not os.path.exists(ext):
            res["errors"].append("fact extraction failed: " + out[-2000:])
            with open(ext, "w") as f:
                f.write("-- extraction failed\nnamespace GoCo.Facts.Extracted\nend GoCo.Facts.Extracted\n")
        fact_mods = sorted(f[:-5] for f in os.listdir(os.path.join(LEAN, "GoCo", "Facts"))
                           if f.startswith("G_") and f.endswith(".lean")) + ["Assumptions"]
        rcf, outf = sh(["lake", "build"] + ["GoCo.Facts." + m for m in fact_mods], cwd=LEAN, timeout=1800)
        failed = set(re.findall(r"^- GoCo\.Facts\.(\w+)", outf, flags=re.M)) if rcf != 0 else set()
        res["facts"] = {m: (m not in failed) for m in fact_mods}
        # which declarations changed (for the replay text)
        res["facts_changed"] = []
        try:
            cur = json.load(open(fjson))
            exp = json.load(open(os.path.join(LEAN, "GoCo", "Facts", "expect.json")))
            for k in sorted(set(cur) | set(exp)):
                a, b = cur.get(k), exp.get(k)
                if a is None or b is None or a["value"] != b["value"]:
                    info = a or b
                    res["facts_changed"].append(f"{info['file']}: {info['decl']}")
        except Exception as e:
            res["facts_changed"].append("could not compare facts: %s" % e)
        # 2. build everything; collect failing modules
        if ctx.tier == "thorough" and os.environ.get("VERIF_NO_CLEAN") != "1":
            sh(["rm", "-rf", os.path.join(LEAN, ".lake", "build")])
        rc, out = sh(["lake", "build", "GoCo", "gocodrv"], cwd=LEAN, timeout=3600)
        res["build_rc"] = rc
        if rc != 0:
            res["ok"] = False
            mods = set(re.findall(r"^- (GoCo[\w.]*)", out, flags=re.M))
            res["failed_modules"] = sorted(mods)
            res["errors"].append(out[-6000:])
            # modules that still build are still audited: build each Props module on its own
        # 3. audit: forbidden constructs in sources
        pat = re.compile(r"\b(sorry|admit|native_decide|bv_decide|implemented_by|unsafe)\b|^\s*axiom\s|maxHeartbeats\s+0")
        for f in walk(os.path.join(LEAN, "GoCo"), exts=(".lean",)) + [os.path.join(LEAN, "Main.lean")]:
            incomment = 0
            for i, line in enumerate(open(f, encoding="utf-8"), 1):
                code = line
                # strip block comments (nesting-aware, line granularity is enough for an audit)
                buf = ""
                j = 0
                while j < len(code):
                    if code.startswith("/-", j):
                        incomment += 1; j += 2; continue
                    if code.startswith("-/", j) and incomment:
                        incomment -= 1; j += 2; continue
                    if not incomment:
                        buf += code[j]
                    j += 1
                buf = buf.split("--")[0]
                if pat.search(buf):
                    res["forbidden"].append(f"{os.path.relpath(f, LEAN)}:{i}: {line.strip()}")
        if res["forbidden"]:
            res["ok"] = False
        # 4. axioms of every property theorem
        import props
        lines = ["import GoCo"]
        names = []
        for pid, p in props.PROPS.items():
            for th in p["theorems"]:
                names.append(th)
        for th in sorted(set(names)):
            lines.append(f"#print axioms {th}")
        audit = os.path.join(ctx.bdir, "Audit.lean")
        with open(audit, "w") as f:
            f.write("\n".join(lines) + "\n")
        if rc == 0:
            rc2, out2 = sh(["lake", "env", "lean", audit], cwd=LEAN, timeout=1800)
            for m in re.finditer(r"'([^']+)' depends on axioms: \[([^\]]*)\]", out2):
                res["axioms"][m.group(1)] = [a.strip() for a in m.group(2).split(",") if a.strip()]
            for m in re.finditer(r"'([^']+)' does not depend on any axioms", out2):
                res["axioms"][m.group(1)] = []
            if rc2 != 0:
                res["errors"].append("axiom audit: " + out2[-3000:])
        else:
            # per-module fallback so that unaffected properties keep their theorems
            for pid, p in props.PROPS.items():
                rcm, _ = sh(["lake", "build", p["module"]], cwd=LEAN, timeout=3600)
                if rcm != 0:
                    continue
                with open(audit, "w") as f:
                    f.write(f"import {p['module']}\n" + "\n".join(f"#print axioms {t}" for t in p["theorems"]) + "\n")
                rc2, out2 = sh(["lake", "env", "lean", audit], cwd=LEAN, timeout=1800)
                for m in re.finditer(r"'([^']+)' depends on axioms: \[([^\]]*)\]", out2):
                    res["axioms"][m.group(1)] = [a.strip() for a in m.group(2).split(",") if a.strip()]
                for m in re.finditer(r"'([^']+)' does not depend on any axioms", out2):
                    res["axioms"][m.group(1)] = []
        # 5. thorough: independent re-check of the compiled proofs
        if ctx.tier == "thorough" and rc == 0:
            rc3, out3 = sh(["lake", "env", "leanchecker", "GoCo"], cwd=LEAN, timeout=3600)
            res["leanchecker_rc"] = rc3
            if rc3 != 0:
                res["ok"] = False
                res["errors"].append("leanchecker: " + out3[-3000:])
        res["driver"] = os.path.exists(DRV)
        return res
    return ctx.stage("lean", run, build=(ctx.tier != "thorough"))


def modfile_args(ctx):
    """the harness module replaces go-co by /repo; when VERIF_REPO points elsewhere (background sweeps on a
    snapshot of the repository) build with a go.mod whose replace directive points there"""
    if os.path.realpath(REPO) == "/repo":
        return []
    mf = os.path.join(ctx.bdir, "go.mod")
    with open(os.path.join(HARNESS, "go.mod")) as f:
        mod = f.read()
    with open(mf, "w") as f:
        f.write(mod.replace("=> /repo", "=> " + os.path.realpath(REPO)))
    sh(["cp", os.path.join(HARNESS, "go.sum"), os.path.join(ctx.bdir, "go.sum")])
    return ["-modfile=" + mf]


def harness_stage(ctx):
    def run():
        binp = os.path.join(ctx.bdir, "vh")
        rc, out = sh(["go", "build"] + modfile_args(ctx) + ["-tags", "verif", "-o", binp, "./cmd/vh"], cwd=HARNESS, env=GOENV, timeout=1200)
        return {"ok": rc == 0, "bin": binp, "output": out[-4000:]}
    return ctx.stage("harness", run, build=True)


def drive(req_path, out_path, timeout=3600):
    """pipe request lines through the Lean driver"""
    with open(req_path) as fin, open(out_path, "w") as fout:
        import subprocess
        try:
            p = subprocess.run([DRV], stdin=fin, stdout=fout, stderr=subprocess.PIPE, timeout=timeout)
            return p.returncode, p.stderr.decode()[-2000:]
        except subprocess.TimeoutExpired:
            return 124, "driver timeout"
