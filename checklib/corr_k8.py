"""K8: the driver on materialised file layouts (rewriter.Compile for C15, cmd/cogen for C16)"""
import json, os
from common import *
import stages


def k8(ctx):
    def run():
        h = stages.harness_stage(ctx)
        if not h["ok"]:
            return {"ok": False, "broken": "harness build failed", "detail": h["output"]}
        wd = ctx.workdir("k8")
        rc, out = sh([h["bin"], "k8", "-dir", wd, "-repo", REPO], env=GOENV, timeout=3600)
        if rc != 0:
            return {"ok": False, "broken": "driver harness failed", "detail": out[-3000:]}
        r = json.load(open(os.path.join(wd, "k8.json")))
        parts = {}
        known = {k.get("case"): k for k in load_known() if k.get("kind") == "k8" and k.get("status") == "open"}
        witness = {}
        for key in ("c13", "c15", "c16"):
            cases = r.get(key) or []
            for c in cases:
                if c["name"] in known:
                    witness[c["name"]] = {"finding": known[c["name"]]["id"], "reproduces": not c["ok"], "detail": c.get("detail", "")[:400]}
            dis = [{"case": c["name"], "impl": c.get("detail", "")[:800], "reference": "holds", "size": i}
                   for i, c in enumerate(cases) if not c["ok"] and c["name"] not in known]
            parts[key] = {"n": len(cases), "n_dis": len(dis), "dis": dis, "cases": [c["name"] for c in cases]}
        return {"ok": all(p["n_dis"] == 0 for p in parts.values()), "parts": parts,
                "evaluations": sum(p["n"] for p in parts.values()), "distinct_nontrivial": sum(p["n"] for p in parts.values()),
                "samples": [f"{k}: {', '.join(p['cases'])}" for k, p in parts.items()], "witness": witness}
    return ctx.stage("k8", run)
