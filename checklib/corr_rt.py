"""K1: runtime correspondence (Lean model of seq.go vs the real seq package), K2: stack depth"""
import json, os
from common import *
import stages


def k1(ctx):
    def run():
        h = stages.harness_stage(ctx)
        if not h["ok"]:
            return {"ok": False, "broken": "harness build failed", "detail": h["output"], "disagreements": []}
        wd = ctx.workdir("k1")
        corpus = os.path.join(VERIF, "corpus", "k1.txt")
        rc, out = sh([h["bin"], "k1", "-out", wd, "-tier", ctx.tier, "-seed", str(ctx.seed), "-corpus", corpus],
                     env=GOENV, timeout=3600)
        if rc != 0:
            # the real runtime crashed (stack overflow, deadlock ...) while producing answers
            return {"ok": False, "broken": "implementation run crashed", "detail": out[-3000:], "disagreements": [],
                    "crash": True}
        rc, err = stages.drive(os.path.join(wd, "req.txt"), os.path.join(wd, "lean.txt"))
        if rc != 0:
            return {"ok": False, "broken": "lean driver failed", "detail": err, "disagreements": []}
        reqs = open(os.path.join(wd, "req.txt")).read().split("\n")
        gos = open(os.path.join(wd, "go.txt")).read().split("\n")
        les = open(os.path.join(wd, "lean.txt")).read().split("\n")
        stats = json.load(open(os.path.join(wd, "stats.json")))
        dis = []
        n = 0
        distinct = set()
        for rq, g, l in zip(reqs, gos, les):
            if not rq:
                continue
            n += 1
            distinct.add(g)
            parts = l.split(" ### ")
            model = parts[0]
            spec = parts[1] if len(parts) > 1 else ""
            if g != model or g != spec:
                # narrow to the first disagreeing history of this term
                try:
                    from_req = rq[len("(k1m "):-1]
                    depth, cut = 0, 0
                    for i, ch in enumerate(from_req):      # end of the term s-expression
                        if ch == "(": depth += 1
                        elif ch == ")":
                            depth -= 1
                        if depth == 0 and (ch == ")" or (ch == " " and i > 0)):
                            cut = i + 1 if ch == ")" else i
                            break
                    term = from_req[:cut].strip()
                    hs, cur, depth = [], "", 0
                    for ch in from_req[cut:].strip():
                        cur += ch
                        if ch == "(": depth += 1
                        elif ch == ")":
                            depth -= 1
                            if depth == 0:
                                hs.append(cur.strip()); cur = ""
                    gs, ms, ss = g.split(" || "), model.split(" || "), spec.split(" || ")
                    for hi in range(len(hs)):
                        if gs[hi] != ms[hi] or gs[hi] != ss[hi]:
                            rq, g, model, spec = f"(k1m {term} {hs[hi]})", gs[hi], ms[hi], ss[hi]
                            break
                except Exception:
                    pass
                dis.append({"request": rq, "impl": g, "model": model, "spec": spec,
                            "impl_vs_spec": g != spec, "size": len(rq)})
        dis.sort(key=lambda d: d["size"])
        return {"ok": not dis, "terms": n, "histories": stats["histories"],
                "distinct_nontrivial": len([d for d in distinct if "=true" in d or "PANIC" in d]),
                "stats": stats, "n_disagreements": len(dis), "disagreements": dis[:20]}
    return ctx.stage("k1", run)


def k2(ctx):
    """stack-depth profile: Go frames at every callback (runtime.Callers) vs machine transitions"""
    def run():
        h = stages.harness_stage(ctx)
        if not h["ok"]:
            return {"ok": False, "broken": "harness build failed", "detail": h["output"], "disagreements": []}
        wd = ctx.workdir("k2")
        rc, out = sh([h["bin"], "k2", "-out", wd, "-tier", ctx.tier, "-seed", str(ctx.seed)], env=GOENV, timeout=3600)
        if rc != 0:
            return {"ok": False, "broken": "implementation run crashed", "detail": out[-3000:], "crash": True, "disagreements": []}
        rc, err = stages.drive(os.path.join(wd, "req.txt"), os.path.join(wd, "lean.txt"))
        if rc != 0:
            return {"ok": False, "broken": "lean driver failed", "detail": err, "disagreements": []}
        reqs = open(os.path.join(wd, "req.txt")).read().split("\n")
        gos = open(os.path.join(wd, "go.txt")).read().split("\n")
        les = open(os.path.join(wd, "lean.txt")).read().split("\n")
        import re
        dis, n, distinct = [], 0, set()

        def maxdepth(s):
            ds = [int(x) for x in re.findall(r"@(\d+)", s)]
            return max(ds) if ds else 0
        for rq, g, l in zip(reqs, gos, les):
            if not rq:
                continue
            n += 1
            distinct.add(g)
            if g != l:
                dis.append({"request": rq, "impl": g[:600], "model": l[:600], "size": len(rq),
                            # more stack than the model allows = a failing input for C17
                            "impl_deeper": maxdepth(g) > maxdepth(l)})
        dis.sort(key=lambda d: d["size"])
        rc, growth = sh([h["bin"], "k2-growth", "1000"], env=GOENV, timeout=600)
        # growth per non-yielding iteration must be zero (finding D5, repaired by 5f77a8a): unless listed as open
        m = re.search(r"per_iteration=([0-9.]+)", growth)
        d5_open = any(k.get("kind") == "k2" and k.get("status") == "open" for k in load_known())
        if (not m or float(m.group(1)) > 0.01) and not d5_open:
            dis.insert(0, {"request": "(growth: 1000 iterations of loops that never yield, 6 shapes)", "impl": growth.strip()[:400],
                           "model": "per_iteration=0.00 for every shape (stepDS_trampoline)", "size": 1, "impl_deeper": True})
        return {"ok": not dis, "evaluations": n, "histories": n, "distinct_nontrivial": len(distinct),
                "n_disagreements": len(dis), "disagreements": dis[:20], "growth_witness": growth.strip(),
                "samples": [f"{r} => {g[:200]}" for r, g in list(zip(reqs, gos))[100:103]]}
    return ctx.stage("k2", run)


def k1i(ctx):
    """every interleaving of k iterators with m steps each (own stores) vs each iterator alone"""
    def run():
        h = stages.harness_stage(ctx)
        if not h["ok"]:
            return {"ok": False, "broken": "harness build failed", "detail": h["output"], "disagreements": []}
        wd = ctx.workdir("k1i")
        rc, out = sh([h["bin"], "k1i", "-out", wd, "-tier", ctx.tier, "-seed", str(ctx.seed)], env=GOENV, timeout=3600)
        if rc != 0:
            return {"ok": False, "broken": "implementation run crashed", "detail": out[-3000:], "crash": True, "disagreements": []}
        r = json.load(open(os.path.join(wd, "k1i.json")))
        dis = [{"request": " | ".join(d["terms"]) + " schedule=" + str(d["schedule"]), "impl": d["mixed"], "spec": d["alone"],
                "impl_vs_spec": True, "size": len(str(d))} for d in (r["disagreements"] or [])]
        return {"ok": not dis, "evaluations": r["interleaved_runs"], "histories": r["interleaved_runs"],
                "distinct_nontrivial": r["tuples"], "n_disagreements": len(dis), "disagreements": dis,
                "samples": r["samples"]}
    return ctx.stage("k1i", run)


def race(ctx):
    """parallel consumption on goroutines under the race detector (supporting evidence for C14)"""
    def run():
        binp = os.path.join(ctx.bdir, "vrace")
        env = dict(GOENV, CGO_ENABLED="1")
        rc, out = sh(["go", "build"] + stages.modfile_args(ctx) + ["-race", "-tags", "verif", "-o", binp, "./cmd/vrace"], cwd=HARNESS, env=env, timeout=1200)
        if rc != 0:
            return {"ok": False, "broken": "race harness build failed", "detail": out[-3000:], "disagreements": []}
        rc, out = sh([binp], env=env, timeout=1200)
        dis = []
        if rc != 0 or "DATA RACE" in out:
            dis.append({"request": "vrace: 50 iterator jobs (string/int/slice/map iterators, 24 combinator terms) on parallel goroutines, 40 rounds",
                        "impl": out[-2500:], "spec": "no data race, every goroutine sees the sequence it sees alone",
                        "impl_vs_spec": True, "size": 1})
        return {"ok": not dis, "evaluations": 50 * 40 * 5, "histories": 50 * 40 * 5, "distinct_nontrivial": 50,
                "n_disagreements": len(dis), "disagreements": dis, "samples": [out.strip()[-200:]]}
    return ctx.stage("race", run)
