"""Template programs (mode B): real Go with variables, closures, ranges, YieldFrom, consumer loops,
generic / method / literal generators, unsupported constructs and bystanders - compiled by the real
compiler and run next to the same source on the goroutine-based reference coroutine.
parts: run (compiled vs reference), opt (intermediate vs final), accept (supported templates compile and
build; templates that may be rejected are either rejected with a diagnostic or agree)."""
import json, os
from common import *
import stages


def tb(ctx):
    def run():
        h = stages.harness_stage(ctx)
        if not h["ok"]:
            return {"ok": False, "broken": "harness build failed", "detail": h["output"]}
        wd = ctx.workdir("tb")
        rc, out = sh([h["bin"], "tbrun", "-dir", wd, "-repo", REPO], env=GOENV, timeout=3600)
        if rc != 0:
            return {"ok": False, "broken": "template runner failed", "detail": out[-3000:]}
        rs = [json.loads(l) for l in open(os.path.join(wd, "tb.jsonl")) if l.strip()]
        parts = {k: {"n": 0, "dis": []} for k in ("run", "opt", "accept")}
        witness = {}
        n_drives = 0
        samples = []
        for r in rs:
            if r.get("finding"):
                differs = r["status"] != "ok" or any(d["c"] != d["r"] for d in r.get("drives", []))
                witness[r["name"]] = {"finding": r["finding"], "reproduces": differs, "status": r["status"],
                                      "msg": r.get("msg", "")[:300],
                                      "drives": [{"call": d["call"], "impl": d["c"][:200], "reference": d["r"][:200]}
                                                 for d in r.get("drives", []) if d["c"] != d["r"]][:2]}
                continue
            parts["accept"]["n"] += 1
            if r["status"] != "ok":
                if r.get("may_reject") and r["status"] == "panic":
                    continue          # rejected with a diagnostic: allowed for unsupported constructs
                parts["accept"]["dis"].append({"template": r["name"], "props": r["props"], "impl": r["status"] + ": " + r.get("msg", "")[:600],
                                               "reference": "compiles, builds and runs", "size": len(r["name"])})
                continue
            for d in r["drives"]:
                n_drives += 1
                parts["run"]["n"] += 1
                parts["opt"]["n"] += 1
                if d["c"] != d["r"]:
                    parts["run"]["dis"].append({"template": r["name"], "call": d["call"], "props": r["props"],
                                                "impl": d["c"][:600], "reference": d["r"][:600], "size": len(d["c"])})
                if d["c"] != d["t"]:
                    parts["opt"]["dis"].append({"template": r["name"], "call": d["call"], "props": r["props"],
                                                "impl": d["c"][:600], "reference": d["t"][:600], "size": len(d["c"])})
                if len(samples) < 4 and len(d["c"]) > 60:
                    samples.append(f"{r['name']} {d['call']} => {d['c'][:160]}")
        for k in parts:
            parts[k]["dis"].sort(key=lambda d: d["size"])
            parts[k]["n_dis"] = len(parts[k]["dis"])
        sh(["rm", "-rf", os.path.join(wd, "mod")])
        return {"ok": all(p["n_dis"] == 0 for p in parts.values()), "parts": parts, "evaluations": n_drives,
                "templates": len(rs), "distinct_nontrivial": len({d["c"] for r in rs for d in r.get("drives", [])}),
                "rejected_with_diagnostic": [r["name"] for r in rs if r.get("may_reject") and r["status"] == "panic"],
                "witness": witness, "samples": samples}
    return ctx.stage("tb", run)
