"""Compiler correspondences on generated generator bodies (mode A):
  K4  Lean `compile`            vs the real intermediate output (AST equality / same panic class)
  K5  Lean `optimize`(real tmp) vs the real final output (AST equality)
  K6a real compiled generator   vs the source on the reference coroutine (the property itself; guard: Supported)
  K6b Lean `srcSem` trace       vs the reference coroutine (validates the source semantics)
  K6c Lean `tgtSem` trace of the real final / intermediate AST vs the real run (validates the target semantics)
  K6d real intermediate package vs real final package (optimiser, on the real code)
  K6e generated package builds  iff the model says `Buildable`
One stage computes everything; properties pick the parts they rest on."""
import json, os, re
from collections import Counter
from common import *
import stages

PANIC_CLASSES = [
    ("invalid switch", "invalid switch"),
    ("illegal state", "illegal state"),
    ("labelled break not supported", "labelled break not supported"),
    ("fallthrough not supported", "fallthrough not supported"),
    ("nil pointer dereference", "nil condition with post"),
    ("goto not supported", "goto not supported"),
    ("yield not supported", "yield not supported"),
    ("implement me", "unsupported statement"),
    ("unreached", "unreached"),
]


def panic_class(msg):
    for pat, cls in PANIC_CLASSES:
        if pat in msg:
            return cls
    return "other: " + msg[:80]


def canon(s):
    """EmptyStmt does not survive printing + re-parsing of untouched code: drop `empty` statements"""
    s = re.sub(r"(?<=[( ])empty(?=[ )])", "", s)
    s = re.sub(r" +", " ", s)
    return s.replace("( ", "(").replace(" )", ")")


def kinds_of(sx):
    return Counter(re.findall(r"\((act|pact|bpanic|def|yield|block|if|switch|for|elif|else|case|default)\b", sx)) + \
        Counter(re.findall(r"\b(break|continue|fallthrough|ret)\b", sx))


def cc(ctx):
    return ctx.stage("cc", lambda: run_cc(ctx, "cc", os.path.join(VERIF, "corpus", "cc.txt"), False))


def cc_findings(ctx):
    """the same pipeline on the witness programs of known_findings.json only"""
    def run():
        wd = ctx.workdir("kfcc")
        progs = [k["program"] for k in load_known() if k.get("kind") == "cc"]
        path = os.path.join(wd, "witness.txt")
        with open(path, "w") as f:
            f.write("\n".join(progs) + "\n")
        if not progs:
            return {"ok": True, "witness": {}}
        r = run_cc(ctx, "kfcc", path, True)
        return r
    return ctx.stage("kfcc", run)


def run_cc(ctx, name, corpus, only):
    if True:
        h = stages.harness_stage(ctx)
        if not h["ok"]:
            return {"ok": False, "broken": "harness build failed", "detail": h["output"]}
        wd = ctx.workdir(name)
        vh = h["bin"]
        rc, out = sh([vh, "cgen", "-out", wd, "-tier", ctx.tier, "-seed", str(ctx.seed),
                      "-corpus", corpus] + (["-only-corpus"] if only else []), env=GOENV, timeout=600)
        if rc != 0:
            return {"ok": False, "broken": "generator failed", "detail": out[-2000:]}
        rc, err = stages.drive(os.path.join(wd, "req.txt"), os.path.join(wd, "pred.txt"))
        if rc != 0:
            return {"ok": False, "broken": "lean driver failed", "detail": err}
        rc, out = sh([vh, "crun", "-dir", wd, "-repo", REPO, "-max-isolated",
                      "1000" if only else ("10" if ctx.tier == "quick" else "40")] + (["-batch", "1"] if only else []),
                     env=GOENV, timeout=7200)
        if rc != 0:
            return {"ok": False, "broken": "compile runner failed", "detail": out[-3000:]}
        progs = [l.rstrip("\n").split("\t") for l in open(os.path.join(wd, "progs.txt")) if l.strip()]
        preds = [l.rstrip("\n") for l in open(os.path.join(wd, "pred.txt"))]
        src = {n: s for n, s in progs}
        pred, flags = {}, {}
        for (n, _), p in zip(progs, preds):
            a, _, f = p.partition("\t")
            pred[n] = a
            flags[n] = f
        res = [json.loads(l) for l in open(os.path.join(wd, "results.jsonl")) if l.strip()]
        # second round through the driver: optimiser on the real tmp AST, semantics traces
        FUEL, PULLS = 300, 25
        req2, idx = [], []
        for r in res:
            n = r["name"]
            if r["status"] == "ok":
                req2.append(f"(k5 {r['tmp']})"); idx.append((n, "k5"))
                req2.append(f"(k9 {src[n]})"); idx.append((n, "k9s"))
                req2.append(f"(k9 {r['tmp']})"); idx.append((n, "k9t"))
                req2.append(f"(k9 {r['final']})"); idx.append((n, "k9f"))
                if not r.get("build"):
                    req2.append(f"(k6s {FUEL} {PULLS} {src[n]})"); idx.append((n, "k6s"))
                    req2.append(f"(k6t {FUEL} {PULLS} {r['final']})"); idx.append((n, "k6t_final"))
                    req2.append(f"(k6t {FUEL} {PULLS} {r['tmp']})"); idx.append((n, "k6t_tmp"))
        with open(os.path.join(wd, "req2.txt"), "w") as f:
            f.write("\n".join(req2) + "\n")
        rc, err = stages.drive(os.path.join(wd, "req2.txt"), os.path.join(wd, "ans2.txt"))
        if rc != 0:
            return {"ok": False, "broken": "lean driver failed (round 2)", "detail": err}
        ans2 = [l.rstrip("\n") for l in open(os.path.join(wd, "ans2.txt"))]
        lean = {}
        for (n, k), a in zip(idx, ans2):
            lean[(n, k)] = a

        parts = {k: {"n": 0, "dis": []} for k in ("k4", "k4acc", "k5", "k6a", "k6b", "k6c", "k6d", "k6e", "k6build", "k9", "k9impl")}

        def dis(part, n, **kw):
            d = {"program": n, "source": src[n], "size": len(src[n])}
            d.update(kw)
            parts[part]["dis"].append(d)

        kinds = Counter()
        n_supported = n_yields = n_panics = n_scope_ok = n_shadow = 0
        distinct_traces = set()
        for r in res:
            n = r["name"]
            kinds += kinds_of(src[n])
            p = pred[n]
            supported = "supported=true" in flags[n]
            buildable = "buildable=true" in flags[n]
            parts["k4"]["n"] += 1
            # k4acc (C11, oracle = the supported grammar): a program the model accepts - by `compile_total`
            # every body of the grammar without a misplaced fallthrough - must not crash the real compiler
            accepted = p.startswith("ok ")
            if accepted:
                parts["k4acc"]["n"] += 1
            if r["status"] == "panic":
                cls = panic_class(r["msg"])
                if not p.startswith("err ") or p[4:] != cls:
                    dis("k4", n, model=p[:300], impl="panic: " + r["msg"][:300])
                if accepted:
                    dis("k4acc", n, reference="accepted: the body is inside the supported grammar (Lean: compile_total)",
                        impl="compiler panic: " + r["msg"][:300])
                continue
            if r["status"] != "ok":
                dis("k4", n, model=p[:300], impl="no output: " + r.get("msg", "")[:300])
                if accepted:
                    dis("k4acc", n, reference="accepted: the body is inside the supported grammar (Lean: compile_total)",
                        impl="no output: " + r.get("msg", "")[:300])
                continue
            if canon(p) != canon("ok " + r["tmp"]):
                dis("k4", n, model=p, impl="ok " + r["tmp"])
            parts["k5"]["n"] += 1
            if canon(lean.get((n, "k5"), "")) != canon("ok " + r["final"]):
                dis("k5", n, model=lean.get((n, "k5"), ""), impl="ok " + r["final"], tmp=r["tmp"])
            # k9: Go's own scoping (go/types) of the source / intermediate / final text against the Lean scope
            # function on the same ASTs; k9impl: go/types alone - every atom of the generated code sees the
            # declarations it sees in the source (for bodies inside the theorem's guard)
            def toks(a):
                a = a.partition("\t")[0]
                return sorted(a[3:].split()) if a.startswith("ok ") else None
            for key, field in (("k9s", "scope_s"), ("k9t", "scope_t"), ("k9f", "scope_f")):
                parts["k9"]["n"] += 1
                m = toks(lean.get((n, key), ""))
                g = sorted(r.get(field, "").split())
                if m != g:
                    dis("k9", n, which=key, model=" ".join(m or ["?"]), go_types=" ".join(g))
            scope_ok = "scopeOK=true" in lean.get((n, "k9s"), "")
            if scope_ok:
                n_scope_ok += 1
                parts["k9impl"]["n"] += 1
                if r.get("scope_f") != r.get("scope_s") or r.get("scope_t") != r.get("scope_s"):
                    dis("k9impl", n, reference="source (go/types): " + r.get("scope_s", ""),
                        impl="generated (go/types): final " + r.get("scope_f", "") + " | tmp " + r.get("scope_t", ""))
            if r.get("scope_s"):
                n_shadow += 1 if any(len(set(t.split(":")[1].split(","))) < len(t.split(":")[1].split(","))
                                     for t in r["scope_s"].split() if ":" in t and t.split(":")[1]) else 0
            parts["k6e"]["n"] += 1
            if bool(r.get("build")) == buildable:
                dis("k6e", n, model=f"Buildable={buildable}", impl=(r.get("build") or "builds")[:600])
            # k6build (C11, oracle = go build): whatever the compiler accepts must build - whether or not the
            # model predicts the failure (a predicted failure is a defect of the tree the model mirrors)
            parts["k6build"]["n"] += 1
            if r.get("build"):
                dis("k6build", n, reference="the generated package builds", impl=r["build"][:600])
            if r.get("build"):
                continue
            distinct_traces.add(r["run_c"])
            n_yields += r["run_c"].count(" Y")
            n_panics += r["run_c"].count("PANIC(")
            if supported:
                n_supported += 1
                parts["k6a"]["n"] += 1
                if r["run_c"] != r["run_r"]:
                    dis("k6a", n, impl=r["run_c"], reference=r["run_r"])
            parts["k6b"]["n"] += 1
            if lean.get((n, "k6s")) != r["run_r"]:
                dis("k6b", n, model=lean.get((n, "k6s")), reference=r["run_r"])
            parts["k6c"]["n"] += 2
            if lean.get((n, "k6t_final")) != r["run_c"]:
                dis("k6c", n, model=lean.get((n, "k6t_final")), impl=r["run_c"], which="final", ast=r["final"])
            if lean.get((n, "k6t_tmp")) != r["run_t"]:
                dis("k6c", n, model=lean.get((n, "k6t_tmp")), impl=r["run_t"], which="tmp", ast=r["tmp"])
            parts["k6d"]["n"] += 1
            if r["run_t"] != r["run_c"]:
                dis("k6d", n, tmp_run=r["run_t"], final_run=r["run_c"])
        verdicts = {}
        if only:
            for r in res:
                n = r["name"]
                v = {"source": src[n], "status": r["status"], "msg": r.get("msg", "")[:200],
                     "model": pred[n][:60], "build": (r.get("build") or "")[:200]}
                if r["status"] == "ok" and not r.get("build"):
                    v["impl_eq_reference"] = r["run_c"] == r["run_r"]
                    v["impl"] = r["run_c"][:400]
                    v["reference"] = r["run_r"][:400]
                verdicts[src[n]] = v
        for k in parts:
            parts[k]["dis"].sort(key=lambda d: d["size"])
            parts[k]["n_dis"] = len(parts[k]["dis"])
            parts[k]["dis"] = parts[k]["dis"][:10]
        gen_stats = json.load(open(os.path.join(wd, "gen_stats.json")))
        try:
            gen_stats.update(json.load(open(os.path.join(wd, "style_stats.json"))))
        except Exception:
            pass
        samples = [f"{n}: {s}" for n, s in progs[len(progs) // 2: len(progs) // 2 + 3]]
        # free the scratch module (it can be large)
        sh(["rm", "-rf", os.path.join(wd, "mod")])
        return {"ok": all(p["n_dis"] == 0 for p in parts.values()), "parts": parts,
                "programs": len(res), "supported_and_run": n_supported,
                "status": dict(Counter(r["status"] for r in res)),
                "model_rejects": dict(Counter(p[4:] for p in pred.values() if p.startswith("err "))),
                "statement_kinds": dict(kinds), "yields_delivered": n_yields, "panicking_runs": n_panics,
                "distinct_nontrivial": len(distinct_traces), "gen_stats": gen_stats,
                "scope_inside_guard": n_scope_ok, "programs_with_shadowing": n_shadow, "samples": samples,
                "evaluations": len(res), "witness": verdicts}
