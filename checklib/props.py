"""property table: Lean module, property theorems (obligations), correspondences"""

TB_COMMON = [
    "Lean 4.33 kernel (thorough tier: re-checked by leanchecker)",
    "axioms: subset of {propext, Quot.sound, Classical.choice}; no sorry/admit/native_decide/bv_decide/own axioms (audited on every run)",
    "hand-written Lean model of the code; tie = differential correspondence (Go harness, in-process, real code) + regenerated source facts",
    "Lean compiler for the driver executable (correspondence runs only, never a theorem)",
]

HOOK_COMMITS = []
NOT_YET = {}

RT_NOTE = ("Theorems are about the Lean model (GoCo/Runtime/*.lean) of seq/seq.go; the model is hand-written and tied to the "
           "code by correspondence K1 (exhaustive small terms x all short histories, plus random larger ones, against the real "
           "seq package in-process). Trusted: Lean kernel, axioms propext/Quot.sound, the harness and driver, Go's own semantics "
           "of closures and calls. Not modelled: allocation, the Go call stack (see C17), goroutines.")

PROPS = {
    "C08": {
        "module": "GoCo.Props.C08",
        "theorems": [
            "GoCo.machine_refines_ref", "GoCo.genRun_refines",
            "GoCo.C08.C08_machine_refines_ref", "GoCo.C08.C08_histories",
            "GoCo.C08.combine_assoc", "GoCo.C08.normal_left_unit", "GoCo.C08.normal_right_unit",
            "GoCo.C08.combine_skips", "GoCo.C08.combine_skips_general",
            "GoCo.C08.loop_no_post_before_first", "GoCo.C08.loop_first_iteration",
            "GoCo.C08.loop_post_after_normal_and_continue",
        ],
        "corr": ["k1"],
        "level_text": "Kernel-checked refinement theorem: for ALL combinator terms (arbitrary stateful, panicking thunks), stores, loop budgets and consumer histories the machine model of seq.go equals the reference interpreter; the named laws are theorems. The model is validated against the real package on every run (K1).",
        "level_note": RT_NOTE,
        "technique": "Lean 4 refinement proof (machine model of seq.go refines reference interpreter) + differential correspondence model vs real seq",
        "design_ref": "DESIGN.md 3.1, 6/C08",
        "modelled": "seq/seq.go 47-171 (combinators) and 176-231 (generator object) as a defunctionalised machine; "
                    "thunks are arbitrary Lean functions; Go closures, allocation and the call stack are not modelled",
    },
    "C09": {
        "module": "GoCo.Props.C09",
        "theorems": [
            "GoCo.genStep_refines", "GoCo.genRun_refines",
            "GoCo.C09.C09_histories", "GoCo.C09.C09_histories_from",
            "GoCo.C09.current_pure", "GoCo.C09.result_pure", "GoCo.C09.current_zero_before_first",
            "GoCo.C09.current_after_advance", "GoCo.C09.result_after_completion",
            "GoCo.C09.false_means_exhausted", "GoCo.C09.exhaustion_permanent",
            "GoCo.C09.exhaustion_permanent_history", "GoCo.C09.send_resumes_with_value", "GoCo.C09.send_autostart",
        ],
        "corr": ["k1"],
        "level_text": "Kernel-checked simulation: for ALL operation histories over MoveNext/Current/Send/Result the generator-object model answers as the abstract iterator over the resumption tree; each clause of the property is a theorem about the abstract iterator. Validated against the real package on every run (K1: all histories up to length 3/4 on every small term).",
        "level_note": RT_NOTE,
        "technique": "Lean 4 simulation proof over operation histories + differential correspondence model vs real seq",
        "design_ref": "DESIGN.md 3.1, 6/C09",
        "modelled": "seq/seq.go 176-231 (generator{started,next,current,result}, MoveNext/Current/Send/Result) over the machine",
    },
}
