"""property table: Lean module, property theorems (obligations), correspondences"""

TB_COMMON = [
    "Lean 4.33 kernel (thorough tier: re-checked by leanchecker)",
    "axioms: subset of {propext, Quot.sound, Classical.choice}; no sorry/admit/native_decide/bv_decide/own axioms (audited on every run)",
    "hand-written Lean model of the code; tie = differential correspondence (Go harness, in-process, real code) + regenerated source facts",
    "Lean compiler for the driver executable (correspondence runs only, never a theorem)",
]

HOOK_COMMITS = []
NOT_YET = {}

RT_NOTE = ("Theorems are about the Lean model (GoCo/Runtime/*.lean) of seq/seq.go; the model is hand-written and tied to the "
           "code by correspondence K1 (exhaustive small terms x all short histories, plus random larger ones, against the real "
           "seq package in-process). Trusted: Lean kernel, axioms propext/Quot.sound, the harness and driver, Go's own semantics "
           "of closures and calls. Not modelled: allocation, the Go call stack (see C17), goroutines.")

CC_NOTE = ("Theorems are about the Lean model (GoCo/Compile/*.lean) of the rewriter and about an executable semantics of mini-Go; "
           "both are hand-written. Tie: on every run the real compiler is run on ~1000 (quick) generated generator bodies; its intermediate "
           "and final outputs are parsed back and compared with the model's output as ASTs, compiler panics are compared by class, and the "
           "generated packages are built and run next to a goroutine-based reference coroutine executing the source. Trusted: Lean kernel, "
           "the harness (renderer, parse-back, reference coroutine, VM), go build, Go's semantics of the generated code.")

PROPS = {
    "C08": {
        "facts": ["G_seq_seq", "Assumptions"],
        "module": "GoCo.Props.C08",
        "theorems": [
            "GoCo.machine_refines_ref", "GoCo.genRun_refines",
            "GoCo.C08.C08_machine_refines_ref", "GoCo.C08.C08_histories",
            "GoCo.C08.combine_assoc", "GoCo.C08.normal_left_unit", "GoCo.C08.normal_right_unit",
            "GoCo.C08.combine_skips", "GoCo.C08.combine_skips_general",
            "GoCo.C08.loop_no_post_before_first", "GoCo.C08.loop_first_iteration",
            "GoCo.C08.loop_post_after_normal_and_continue",
        ],
        "corr": [("k1", None)],
        "level_text": "Kernel-checked refinement theorem: for ALL combinator terms (arbitrary stateful, panicking thunks), stores, loop budgets and consumer histories the machine model of seq.go equals the reference interpreter; the named laws are theorems. The model is validated against the real package on every run (K1).",
        "level_note": RT_NOTE,
        "technique": "Lean 4 refinement proof (machine model of seq.go refines reference interpreter) + differential correspondence model vs real seq",
        "design_ref": "DESIGN.md 3.1, 6/C08",
        "modelled": "seq/seq.go 47-171 (combinators) and 176-231 (generator object) as a defunctionalised machine; "
                    "thunks are arbitrary Lean functions; Go closures, allocation and the call stack are not modelled",
    },
    "C09": {
        "facts": ["G_seq_seq", "Assumptions"],
        "module": "GoCo.Props.C09",
        "theorems": [
            "GoCo.genStep_refines", "GoCo.genRun_refines",
            "GoCo.C09.C09_histories", "GoCo.C09.C09_histories_from",
            "GoCo.C09.current_pure", "GoCo.C09.result_pure", "GoCo.C09.current_zero_before_first",
            "GoCo.C09.current_after_advance", "GoCo.C09.result_after_completion",
            "GoCo.C09.false_means_exhausted", "GoCo.C09.exhaustion_permanent",
            "GoCo.C09.exhaustion_permanent_history", "GoCo.C09.send_resumes_with_value", "GoCo.C09.send_autostart",
        ],
        "corr": [("k1", None)],
        "level_text": "Kernel-checked simulation: for ALL operation histories over MoveNext/Current/Send/Result the generator-object model answers as the abstract iterator over the resumption tree; each clause of the property is a theorem about the abstract iterator. Validated against the real package on every run (K1: all histories up to length 3/4 on every small term).",
        "level_note": RT_NOTE,
        "technique": "Lean 4 simulation proof over operation histories + differential correspondence model vs real seq",
        "design_ref": "DESIGN.md 3.1, 6/C09",
        "modelled": "seq/seq.go 176-231 (generator{started,next,current,result}, MoveNext/Current/Send/Result) over the machine",
    },
    "C01": {
        "facts": ["G_rewriter_yield_rewrite", "G_rewriter_yield_block", "G_rewriter_yield_ast", "G_rewriter_return", "G_rewriter_etc", "G_rewriter_const", "G_rewriter_optimize", "G_seq_seq"],
        "module": "GoCo.Props.C01",
        "theorems": ["GoCo.C01.C01_partial", "GoCo.MG.compile_correct_partial", "GoCo.MG.compile_eta_correct_partial",
                     "GoCo.MG.rwStmts_ok", "GoCo.MG.p3Thunk_sem", "GoCo.MG.p0Stmts_sem", "GoCo.MG.etaStmts_sem",
                     "GoCo.C01.C01_cex_continue_yielding_post", "GoCo.MG.loop_closed", "GoCo.MG.loop_closed_ypost"],
        "corr": [("cc", "k4"), ("cc", "k5"), ("cc", "k6a"), ("cc", "k6b"), ("cc", "k6c")],
        "search": ["cc:k6a", "cc:k6d"],
        "level_text": "Kernel-checked theorem compile_correct_partial: for EVERY generator body of the proved fragment (simple statements, blocks, if/else-if chains, for loops with yields in initialiser/body/post, break, continue, return; arbitrary nesting), every interpretation of its atoms, every store and loop budget, the thunk of the compiled body (pass0, pass2, pass3, eta-reduction of the Lean model of the rewriter) equals the source body run as a coroutine, as resumption trees. switch/fallthrough and the optimiser's Delay elision are outside the proved fragment (correspondences only); the full statement is false on this tree (kernel-checked counterexample D6). The theorems are over an executable semantics of mini-Go for source (Yield suspends) and target (seq combinators, Go's eager argument evaluation). The model's compile and optimize functions are tied to the real compiler by AST equality on every generated program (K4, K5), both semantics are tied to real executions (K6b: reference coroutine; K6c: the real generated code), and K6a compares the real compiled generator with the source on a goroutine-based reference coroutine under every truncation.",
        "level_note": CC_NOTE,
        "technique": "Lean 4 proofs over a model of the rewriter + AST-equality correspondence with the real compiler + run-vs-reference-coroutine oracle",
        "design_ref": "DESIGN.md 3.2, 6/C01",
        "modelled": "rewriter/yield_rewrite.go, yield_block.go, return.go, yield_ast.go, optimize.go as Lean functions over a mini-Go AST (mode A: atoms A/P/V/C/T over a VM); go/types, go/packages, printing and the Go semantics of the generated code are not modelled",
    },
    "C07": {
        "facts": ["G_rewriter_optimize", "G_rewriter_compile"],
        "module": "GoCo.Props.C07",
        "theorems": ["GoCo.C07.C07_eta_sound", "GoCo.MG.etaStmts_sem", "GoCo.MG.etaSExp_sem", "GoCo.MG.etaThunk_sem"],
        "corr": [("cc", "k5"), ("cc", "k6d"), ("cc", "k6c")],
        "search": ["cc:k6d", "cc:k6a"],
        "level_text": "Kernel-checked: eta-reduction of generated thunks preserves the semantics of every statement and Seq expression (all programs, no guard). Delay elision is carried by K5 (the Lean optimiser applied to the REAL intermediate AST equals the real final AST) and K6d (the real intermediate package and the real final package produce identical event traces, under every truncation).",
        "level_note": CC_NOTE + " Eta-reduction of user closures (D9) is outside the mode-A grammar: see C13.",
        "technique": "Lean 4 proof (eta soundness) + AST-equality correspondence of the optimiser model on real intermediate output + intermediate-vs-final run comparison",
        "design_ref": "DESIGN.md 6/C07",
        "modelled": "rewriter/optimize.go (optimizeDelayCall, etaReduction) on the mini-Go target AST; import clean-up is not modelled",
    },
    "C11": {
        "facts": ["G_rewriter_yield_rewrite", "G_rewriter_yield_block", "G_rewriter_yield_ast", "G_rewriter_return", "G_rewriter_etc", "G_rewriter_const", "G_rewriter_compile", "G_rewriter_rewrite"],
        "module": "GoCo.Props.C01",
        "theorems": ["GoCo.MG.p0Stmts_sem"],
        "corr": [("cc", "k4"), ("cc", "k6e")],
        "search": ["cc:k6e"],
        "level_text": "The Lean model `compile` is a total function with every Go assert/panic of the rewriter as an explicit error value; K4 compares, per generated program, model result and real result (AST, or panic class) and K6e compares `go build` of every generated package with the model's decidable `Buildable` predicate. Theorem `compile_total` (InSubset p -> compile p = ok t and Buildable t) is under construction; on the pinned tree it is false (findings D10a-d, D11a) and is replaced by the replays of the known findings.",
        "level_note": CC_NOTE + " That a generated package type-checks is go/types' judgement and is observed (go build of every generated package), not proved.",
        "technique": "Lean 4 model of the rewriter with explicit error values + AST/panic-class correspondence with the real compiler + go build of every output",
        "design_ref": "DESIGN.md 6/C11",
        "modelled": "all assert/panic sites of rewriter/yield_rewrite.go, yield_block.go, return.go, etc.go reachable from the mode-A grammar",
    },
    "C02": {
        "facts": ["G_seq_seq", "Assumptions", "G_rewriter_yield_rewrite", "G_rewriter_yield_block", "G_rewriter_optimize"],
        "module": "GoCo.Props.C02",
        "theorems": ["GoCo.C02.C02_start_runs_nothing_runtime", "GoCo.C02.C02_compile_shape", "GoCo.C02.C02_construct_pure",
                     "GoCo.C02.C02_advance_lockstep", "GoCo.C02.C02_lockstep_partial", "GoCo.genRun_refines",
                     "GoCo.MG.compile_correct_partial"],
        "corr": [("k1", None), ("cc", "k6a"), ("cc", "k6b"), ("cc", "k6c"), ("cc", "k5"), ("cc", "k6d")],
        "search": ["cc:k6a", "cc:k6d"],
        "level_text": "Kernel-checked: constructing a compiled iterator evaluates nothing (every accepted body compiles to return Start(Delay(thunk))); the store is part of every node of the resumption trees, so the tree equality of compile_correct_partial (compiler, proved fragment) and the generator-object refinement (runtime, all terms and histories) state that each advance runs exactly the source statements up to the next yield. Correspondences compare interleaved effect/consumer traces (markers M, Y, END between atom events) of the real compiled code with a goroutine-based reference coroutine, which covers every truncation point including calls after exhaustion.",
        "level_note": CC_NOTE + " " + RT_NOTE,
        "technique": "Lean 4 proofs (compile correctness as resumption-tree equality incl. stores; generator refinement) + trace correspondence with markers against a reference coroutine",
        "design_ref": "DESIGN.md 6/C02",
        "modelled": "seq/seq.go (machine + generator object), rewriter passes; absence of background activity in seq is a source fact",
    },
    "C18": {
        "facts": ["G_seq_seq", "Assumptions", "G_rewriter_yield_rewrite", "G_rewriter_optimize"],
        "module": "GoCo.Props.C18",
        "theorems": ["GoCo.C18.C18_panic_surfaces", "GoCo.C18.C18_send_panic_surfaces", "GoCo.C18.C18_machine",
                     "GoCo.C18.C18_compiled_panics_partial", "GoCo.machine_refines_ref", "GoCo.genStep_refines"],
        "corr": [("k1", None), ("cc", "k6a"), ("cc", "k6b"), ("cc", "k6c")],
        "search": ["cc:k6a"],
        "level_text": "Kernel-checked: resumption trees carry panic leaves; the machine model of seq.go reaches the panicking configuration exactly where the reference has the leaf, the consumer call observing it gets the original value and the iterator is left as before; compile_correct_partial is an equality of trees with panic leaves, so a panic at any statement position of the proved fragment sits at the same position of the compiled iterator. K1 runs panicking thunks/conditions/posts at every position of small terms; K6 runs panicking atoms (P(n), panic(PV(n)), fuel exhaustion at arbitrary atoms) in compiled code against the reference coroutine.",
        "level_note": CC_NOTE + " " + RT_NOTE,
        "technique": "Lean 4 proofs (panic leaves in refinement and compile correctness) + differential runs with panicking atoms",
        "design_ref": "DESIGN.md 6/C18",
        "modelled": "Go panics as a result value of thunks/conditions/atoms; recover is absent from seq (source fact)",
    },
    "C10": {
        "facts": ["G_seq_iter"],
        "module": "GoCo.Props.C10",
        "theorems": ["GoCo.C10.C10_string", "GoCo.C10.C10_int", "GoCo.C10.C10_wrapper", "GoCo.C10.C10_progress",
                     "GoCo.Iters.strIter_eq_range", "GoCo.Iters.intIter_eq_range", "GoCo.Iters.wrapIter_eq_runtime"],
        "corr": [("k3", "native"), ("k3", "model"), ("k3", "spec")],
        "search": ["k3:native"],
        "level_text": "Kernel-checked for EVERY input: the string iterator delivers exactly Go's (byte offset, rune) pairs incl. U+FFFD on every invalid sequence; the integer iterator delivers 0..n-1 (nothing for n<=0); the map/channel wrappers deliver each runtime step exactly once. K3 compares, in one process, every iterator with Go's native range statement (all byte strings up to length 3/4 over a 22-byte hostile alphabet + random longer ones, ints -3..12, slices under mutation scripts incl. append reallocation, maps with nil interface keys/values and deletion, channels), the Lean model with the implementation, and the Lean specification with native range.",
        "level_note": "Theorems are about the Lean model GoCo/Iters of seq/iter.go. Partial: slices are covered by K3 only; map iteration order/deletion and channel receive are the Go runtime's and enter the model as a parameter; decodeRune stands for unicode/utf8.DecodeRuneInString (validated exhaustively on short strings).",
        "technique": "Lean 4 proofs by induction over all inputs (UTF-8 range semantics, integer range) + in-process differential against Go's native range",
        "design_ref": "DESIGN.md 6/C10",
        "modelled": "seq/iter.go integerIter, stringIter, map/chan wrappers; unicode/utf8 as a Lean function; reflect.MapIter and channel receive as parameters",
    },
    "C17": {
        "facts": ["G_seq_seq"],
        "module": "GoCo.Props.C17",
        "theorems": ["GoCo.C17.C17_cex_depth_grows", "GoCo.C17.loop_steps", "GoCo.C17.C17_frames_are_transitions",
                     "GoCo.runFast_eq_run"],
        "corr": [("k2", None), ("k1", None)],
        "search": [],
        "level_text": "Frame model: every Go call in seq.go is a non-eliminated tail call, so the stack depth during an advance equals the number of machine transitions; K2 checks this equality against runtime.Callers at every thunk/condition/post callback of every small term with a loop and of random larger terms (exact match of depth profiles). Kernel-checked counterexample C17_cex_depth_grows: on this tree a loop of n non-yielding iterations pushes 4n frames for every n, i.e. the property is FALSE of the pinned runtime (open finding D5, replayed on every run). Any change that makes the runtime use more stack than the model breaks K2 and is reported with the term as replay.",
        "level_note": RT_NOTE + " Byte sizes of frames and the 1 GB stack limit are not modelled; the statement is about the number of frames.",
        "technique": "Lean 4 frame-count model of seq.go (depth = machine transitions) with a proved counterexample + exact depth-profile correspondence against runtime.Callers",
        "design_ref": "DESIGN.md 6/C17",
        "modelled": "the call structure of seq/seq.go: one frame per machine transition, thunks/conditions return before the next call",
    },
    "C14": {
        "facts": ["G_seq_seq", "G_seq_iter", "Assumptions"],
        "module": "GoCo.Props.C14",
        "theorems": ["GoCo.C14.C14_interleave_independent", "GoCo.C14.C14_ref_inl", "GoCo.C14.C14_frame",
                     "GoCo.ref_inl", "GoCo.absStep_inl", "GoCo.genRun_refines"],
        "corr": [("k1", None), ("k1i", None), ("race", None)],
        "search": [],
        "level_text": "Kernel-checked: an iterator whose code touches only its own part of the store behaves, under ANY interleaving with arbitrary activity on the rest of the store (the operations of any number of other iterators), exactly as when consumed alone - all terms, all operation sequences. The models have no state shared between iterators by construction; that the real seq package has none (no package-level variable, sync, goroutine, recover) is a source fact re-proved on every run. K1i runs every interleaving of 2-3 real iterators (3/2 steps each, same and different terms, own stores) against each iterator alone; the race stage consumes string/int/slice/map iterators and combinator terms on parallel goroutines under the Go race detector.",
        "level_note": RT_NOTE + " Partial: data races belong to the Go memory model and cannot be exhibited by a sequential model; the -race run is supporting evidence, not the proof.",
        "technique": "Lean 4 frame/independence theorem over product stores + source facts (no shared state in seq) + exhaustive small interleavings and -race runs of the real iterators",
        "design_ref": "DESIGN.md 6/C14",
        "modelled": "seq/seq.go generator object and machine (per-iterator state only); goroutines and the memory model are not modelled",
    },
}
