#!/bin/bash
# run every registered quick check on the unchanged tree (refreshes evidence/*.json); exit 1 if any fails
cd /verif
[ -n "$(git -C /repo status --porcelain)" ] && { echo "/repo has uncommitted changes"; exit 2; }
rc=0
for p in $(python3 -c "import json;print(' '.join(c['property_id'] for c in json.load(open('MANIFEST.json'))['checks']))"); do
  ./check $p --tier ${1:-quick} || rc=1
done
python3-vt - <<'PY'
import json, jsonschema, glob
s = json.load(open('/root/.vp/EVIDENCE.schema.json'))
m = json.load(open('/verif/MANIFEST.json'))
jsonschema.validate(m, json.load(open('/root/.vp/MANIFEST.schema.json')))
for c in m['checks']:
    e = json.load(open(c['evidence_file']))
    jsonschema.validate(e, s)
    cov = e['coverage']
    assert cov['obligations'] == cov['discharged'], (c['property_id'], cov['obligations'], cov['discharged'])
print("manifest + evidence valid")
PY
exit $rc
